"""C01 - AVP value <-> wire codec: exact, RFC 6733 conformant, lossless, domain-checked.

E1: bounded-exhaustive enumeration of value alphabets x dictionary entries x flag choices,
judged by the independent reference codec (refcodec).
"""
from __future__ import annotations

import datetime
import ipaddress
import itertools
import math

from .. import common, refcodec as rc
from ..common import Report, Violation

M, P, V = rc.FLAG_M, rc.FLAG_P, rc.FLAG_V
UTC0 = datetime.datetime(1970, 1, 1)


def lib():
    from diameter.message.avp import avp as A
    from diameter.message.avp import dictionary as D
    return A, D


def tname_of(cls):
    return rc.TYPE_NAMES.get(cls.__name__)


# ------------------------------------------------------------------ alphabets
def int_alphabet(bits, signed):
    lo, hi = (-(1 << (bits - 1)), (1 << (bits - 1)) - 1) if signed else (0, (1 << bits) - 1)
    s = {lo, lo + 1, 0, 1, hi - 1, hi}
    if signed:
        s.add(-1)
    for k in range(bits):
        for v in ((1 << k) - 1, 1 << k, -(1 << k)):
            if lo <= v <= hi:
                s.add(v)
    good = sorted(s)
    bad = [lo - 1, hi + 1, 1 << 64, -(1 << 64), 1.5, "12"]
    return good, bad


def float_alphabet(ebits, mbits):
    nb = 1 + ebits + mbits
    emax = (1 << ebits) - 1
    pats = []
    for sign in (0, 1):
        for e, m in ((0, 0), (0, 1), (0, (1 << mbits) - 1), (1, 0), (1, 1), (emax - 1, (1 << mbits) - 1),
                     (emax - 1, 0), ((emax >> 1), 0), ((emax >> 1), 1), ((emax >> 1) + 1, 1 << (mbits - 1)),
                     (emax, 0), ((emax >> 1) - 10, 12345 % (1 << mbits))):
            pats.append((sign << (ebits + mbits)) | (e << mbits) | m)
    vals = [rc.bits_to_float(p, ebits, mbits) for p in pats]
    # values that need rounding when narrowed (exactly representable as double only)
    vals += [0.1, -0.1, 1 / 3, 1e-40, 16777217.0, 3.4028235e38, 1.0000000596046448, 2.5, 7, -3]
    nans = [(emax << mbits) | 1, (emax << mbits) | (1 << (mbits - 1)), (1 << (nb - 1)) | (emax << mbits) | 5]
    bad = ["1.0", None.__class__, b"\0\0\0\0"]
    if nb == 32:
        bad += [1e39, -1e39, 3.5e38]
    return vals, nans, bad


def utf8_alphabet(tier):
    chars = ["\u0000", "a", "\u007f", "\u0080", "߿", "ࠀ", "￿", "\U00010000", "\U0010ffff"]
    out = [""]
    for L in (1, 2, 3):
        for t in itertools.product(chars, repeat=L):
            out.append("".join(t))
    for ch in ("a", "é", "€", "\U0001f600"):
        for n in range(0, 65 if tier == "thorough" else 18):
            out.append(ch * n)
    bad = ["\ud800", "a\udfffb", b"bytes", 5, None.__class__]
    return out, bad


def octet_alphabet(tier):
    out = []
    top = 4097 if tier == "thorough" else 300
    for n in range(0, top):
        out.append(bytes(n))
        out.append(b"\xff" * n)
        out.append(bytes((i * 31 + 7) & 0xff for i in range(n)))
    if tier != "thorough":
        for n in (1021, 1022, 1023, 1024, 4093, 4094, 4095, 4096):
            out.append(bytes((i * 31 + 7) & 0xff for i in range(n)))
    out += [bytes([a]) for a in range(256)]
    out += [bytes([a, b]) for a in range(256) for b in range(256)]
    bad = ["str", 5, bytearray(b"ab"), None.__class__]
    return out, bad


def time_alphabet():
    def at(u):
        return UTC0 + datetime.timedelta(seconds=u)
    pts = set()
    for centre in (rc.TIME_MIN_UNIX, (1 << 32) - rc.NTP_UNIX_OFFSET, rc.TIME_MAX_UNIX, 0):
        for d in (-2, -1, 0, 1, 2):
            u = centre + d
            if rc.TIME_MIN_UNIX <= u <= rc.TIME_MAX_UNIX:
                pts.add(u)
    for y in range(1969, 2104):
        pts.add(int((datetime.datetime(y, 6, 15, 12, 34, 56) - UTC0).total_seconds()))
    for h in range(24):
        pts.add(int((datetime.datetime(2036, 2, 7, h, 28, 16) - UTC0).total_seconds()))
    good = [at(u) for u in sorted(pts)]
    good.append(datetime.datetime(2024, 1, 1, 0, 0, 0, 999999))        # sub-second part is dropped
    good.append(datetime.datetime(2040, 1, 1, tzinfo=datetime.timezone.utc))
    bad = [at(rc.TIME_MIN_UNIX - 1), at(rc.TIME_MAX_UNIX + 1), datetime.datetime(1900, 1, 1), datetime.datetime(1960, 1, 1),
           datetime.datetime(1899, 12, 31, 23, 59, 59), datetime.datetime(1850, 6, 1), datetime.datetime(2172, 3, 15, 12, 56, 32), datetime.datetime(2500, 1, 1),
           datetime.datetime(2200, 1, 1), datetime.datetime(2105, 1, 1), datetime.date(2020, 1, 1), 1700000000, "2020-01-01"]
    return good, bad


def addr_alphabet():
    good = ["0.0.0.0", "255.255.255.255", "10.0.0.1", "127.0.0.1", "::", "::1", "2001:db8:85a3::8a2e:370:7334",
            "::ffff:10.1.2.3", "fe80::1", "1:2:3:4:5:6:7:8"]
    good += ["4178000999912345"[:n] for n in range(1, 16)]
    bad = ["300.1.1.1", "1::2::3", "1.2.3", "12:34", 5, b"10.0.0.1", None.__class__]
    return good, bad


def alphabet(tname, tier):
    """Returns (good values, bad values)."""
    if tname in ("i32", "i64", "u32", "u64"):
        return int_alphabet(int(tname[1:]), tname[0] == "i")
    if tname == "f32":
        v, n, b = float_alphabet(8, 23)
        return v + [math.nan], b
    if tname == "f64":
        v, n, b = float_alphabet(11, 52)
        return v + [math.nan], b
    if tname == "utf8":
        return utf8_alphabet(tier)
    if tname == "octets":
        return octet_alphabet(tier)
    if tname == "time":
        return time_alphabet()
    if tname == "addr":
        return addr_alphabet()
    raise KeyError(tname)


LIGHT = {
    "i32": [0, -1, 2147483647, -2147483648], "i64": [0, -1, (1 << 63) - 1, -(1 << 63)],
    "u32": [0, 1, 4294967295], "u64": [0, 1, (1 << 64) - 1, 1 << 32],
    "f32": [0.0, -1.5, 1e-40, math.inf], "f64": [0.0, -1.5, 5e-324, math.inf],
    "utf8": ["", "a", "€uro", "abcd\U0001f600"], "octets": [b"", b"\x00", b"ab\xff", b"\x01\x02\x03\x04\x05"],
    "time": [UTC0 + datetime.timedelta(seconds=u) for u in (rc.TIME_MIN_UNIX, 1700000000, (1 << 32) - rc.NTP_UNIX_OFFSET, rc.TIME_MAX_UNIX)],
    "addr": ["10.0.0.1", "::1", "41780009999"],
}


# ------------------------------------------------------------------ comparison helpers
def value_equal(tname, got, payload):
    """Does the library's decoded value equal the reference decoding of payload?"""
    if tname in ("f32", "f64"):
        if rc.is_nan_pattern(payload):
            return isinstance(got, float) and got != got
        ref = rc.dec_value(tname, payload)
        return isinstance(got, float) and got == ref and math.copysign(1, got) == math.copysign(1, ref)
    ref = rc.dec_value(tname, payload)
    if tname == "addr":
        if not (isinstance(got, tuple) and len(got) == 2 and got[0] == ref[0]):
            return False
        if ref[0] == 2:
            try:
                return ipaddress.IPv6Address(got[1]) == ref[1]
            except Exception:
                return False
        return got[1] == ref[1]
    if tname == "time":
        return isinstance(got, datetime.datetime) and got.tzinfo is None and got == ref
    return type(got) is type(ref) and got == ref


def sub_class(tname, value, payload):
    """Coarse class of the case, used in violation keys."""
    try:
        if tname == "time" and payload is not None:
            return "era0" if payload[0] & 0x80 else "era1"
        if tname == "addr" and payload is not None:
            return f"family{int.from_bytes(payload[:2], 'big')}"
        if tname in ("octets", "utf8") and payload is not None:
            return f"len%4={len(payload) % 4}"
    except Exception:
        pass
    return "value"


def want_flags(entry_mand, m, p):
    fl = 0
    mm = entry_mand if m is None else m
    if mm:
        fl |= M
    if p:
        fl |= P
    return fl


def check_scalar(A, code, vendor, cls, tname, entry_mand, value, m, p, out, ctx):
    """Clauses (i)-(iii) for one in-domain value; appends Violation objects to out."""
    try:
        ref_payload = rc.enc_value(tname, value)
    except rc.OutOfDomain:
        raise AssertionError(f"alphabet error: {tname} {value!r} not in domain")
    case = {"code": code, "vendor": vendor, "type": tname, "value": repr(value), "m": m, "p": p, "ctx": ctx}
    sub = sub_class(tname, value, ref_payload)
    try:
        a = A.Avp.new(code, vendor, value=value, is_mandatory=m, is_private=p)
        wire = a.as_bytes()
    except Exception as e:
        out.append(Violation(f"avp:{tname}:{sub}:encode-raises", f"{case}: {type(e).__name__}: {e}", case))
        return
    fl = want_flags(entry_mand, m, p)
    if ref_payload is None:      # NaN: any NaN pattern of the right width
        ok = len(wire) >= 8 and rc.is_nan_pattern(a.payload) and wire == rc.enc_avp(code, a.payload, fl, vendor)
        ref_payload = a.payload
    else:
        ok = wire == rc.enc_avp(code, ref_payload, fl, vendor)
    if type(a) is not cls:
        out.append(Violation(f"avp:{tname}:new-wrong-class", f"{case}: {type(a).__name__} != {cls.__name__}", case))
    if not ok:
        out.append(Violation(f"avp:{tname}:{sub}:encode-mismatch",
                             f"{case}: got {wire.hex()[:120]} want {rc.enc_avp(code, ref_payload, fl, vendor).hex()[:120]}", case))
        return
    # decode the reference wire in the flag variants the library itself may never emit
    for wfl in {fl, fl ^ M, fl | P, 0, fl | 0x01, 0x1f, M | 0x10}:      # incl. reserved bits: still well-formed, must survive the round trip
        w = rc.enc_avp(code, ref_payload, wfl, vendor)
        try:
            d = A.Avp.from_bytes(w)
            wantfl = wfl | (V if vendor else 0)
            if type(d) is not cls or d.code != code or d.vendor_id != vendor or d.flags != wantfl \
                    or d.is_mandatory != bool(wfl & M) or d.is_private != bool(wfl & P) or d.payload != ref_payload \
                    or d.length != len(w) - rc.pad4(len(ref_payload)):
                out.append(Violation(f"avp:{tname}:decode-header-mismatch",
                                     f"{case} wire={w.hex()[:80]}: class={type(d).__name__} code={d.code} vendor={d.vendor_id} flags={d.flags:#x}", case))
                return
            if not value_equal(tname, d.value, ref_payload):
                out.append(Violation(f"avp:{tname}:{sub}:decode-value-mismatch",
                                     f"{case} wire={w.hex()[:80]}: value {d.value!r} != reference {rc.dec_value(tname, ref_payload) if not rc.is_nan_pattern(ref_payload) or tname[0] != 'f' else 'NaN'!r}", case))
                return
            if d.as_bytes() != w:
                out.append(Violation(f"avp:{tname}:reencode-mismatch", f"{case}: {d.as_bytes().hex()[:80]} != {w.hex()[:80]}", case))
                return
            if wfl == fl:
                # a decoded AVP whose header fields are changed (the value left alone) encodes with the new header
                d.is_mandatory = not d.is_mandatory
                d.is_private = not d.is_private
                nfl = wfl ^ M ^ P
                if d.as_bytes() != rc.enc_avp(code, ref_payload, nfl, vendor):
                    out.append(Violation(f"avp:{tname}:header-change-after-decode-not-encoded:flags",
                                         f"{case}: M and P toggled on the decoded AVP, encoded {d.as_bytes().hex()[:60]} want {rc.enc_avp(code, ref_payload, nfl, vendor).hex()[:60]}", case))
                    return
                d.vendor_id = 0 if vendor else 4242
                if d.as_bytes() != rc.enc_avp(code, ref_payload, nfl, 0 if vendor else 4242):
                    out.append(Violation(f"avp:{tname}:header-change-after-decode-not-encoded:vendor",
                                         f"{case}: vendor id changed on the decoded AVP, encoded {d.as_bytes().hex()[:60]}", case))
                    return
        except Exception as e:
            out.append(Violation(f"avp:{tname}:{sub}:decode-raises", f"{case} wire={w.hex()[:80]}: {type(e).__name__}: {e}", case))
            return


def check_bad(A, code, vendor, tname, good, bad, out):
    """Clause (iv): an out-of-domain value raises and leaves the payload untouched."""
    case = {"code": code, "vendor": vendor, "type": tname, "bad": repr(bad)}
    try:
        rc.enc_value(tname, bad)
        raise AssertionError(f"alphabet error: {tname} {bad!r} is in domain")
    except rc.OutOfDomain:
        pass
    a = A.Avp.new(code, vendor, value=good)
    before = a.payload
    try:
        a.value = bad
    except Exception:
        if a.payload != before:
            out.append(Violation(f"avp:{tname}:rejected-value-altered-payload", f"{case}", case))
        return
    kind = type(bad).__name__
    if tname == "time" and isinstance(bad, datetime.datetime):
        kind = "datetime-before-1968-01-20T03:14:08Z" if bad < datetime.datetime(2000, 1, 1) else "datetime-after-2104-02-26T09:42:23Z"
        # instants whose seconds-since-1900 count does not even fit one 2^32 cycle around the window are a separate class: the
        # library rejects them today (the known wrap only concerns counts that fit 32 bits in the neighbouring era)
        if bad < datetime.datetime(1900, 1, 1) or bad >= datetime.datetime(2172, 3, 15, 12, 56, 32):
            kind += ":beyond-one-32-bit-cycle"
    out.append(Violation(f"avp:{tname}:out-of-domain-accepted:{kind}",
                         f"{case}: accepted, payload {a.payload.hex()[:40]} (was {before.hex()[:40]})", case))
    try:
        A.Avp.new(code, vendor, value=bad)
        # already reported above
    except Exception:
        pass


# ------------------------------------------------------------------ work items
def entries():
    A, D = lib()
    out = []
    for code, e in D.AVP_DICTIONARY.items():
        out.append((code, 0, e))
    for vnd, d in D.AVP_VENDOR_DICTIONARY.items():
        for code, e in d.items():
            out.append((code, vnd, e))
    return out


REP = {}        # one representative dictionary entry per type (filled by run)


def work_dict(args):
    """Light slice of the alphabet on a chunk of dictionary entries x 4 flag choices."""
    lo, hi, full = args
    A, D = lib()
    out = []
    n = 0
    ents = entries()[lo:hi]
    for code, vnd, e in ents:
        cls = e["type"]
        tn = tname_of(cls)
        if tn is None:
            out.append(Violation("dict:unknown-type-class", f"{code}/{vnd}: {cls}", {"code": code, "vendor": vnd}))
            continue
        if e.get("vendor", 0) not in (0, vnd) and vnd:
            out.append(Violation("dict:vendor-field-mismatch", f"{code}/{vnd}: entry says {e.get('vendor')}", {"code": code, "vendor": vnd}))
        if tn == "grouped":
            vals = [None]
        else:
            vals = (alphabet(tn, "quick")[0] if full and tn not in ("octets", "utf8") else LIGHT[tn])
        for v in vals:
            for m, p in ((None, None), (True, None), (False, True), (None, True)):
                n += 1
                if tn == "grouped":
                    check_grouped(A, code, vnd, e.get("mandatory"), ("L", ("U",), ("O",)), m, p, out)
                else:
                    check_scalar(A, code, vnd, cls, tn, e.get("mandatory"), v, m, p, out, "dict")
    return n, n, out


def work_type(args):
    """Full alphabet of one type on its representative entry (default flags + one forced pair)."""
    tn, lo, hi, tier, rep = args
    A, D = lib()
    code, vnd, mand, clsname = rep
    cls = getattr(A, clsname)
    good, bad = alphabet(tn, tier)
    out = []
    n = 0
    for v in good[lo:hi]:
        n += 1
        check_scalar(A, code, vnd, cls, tn, mand, v, None, None, out, "type-matrix")
    if lo == 0:
        for b in bad:
            n += 1
            g = LIGHT[tn][1] if tn != "f32" else 1.5
            check_bad(A, code, vnd, tn, g, b, out)
    return n, n, out


# ---- grouped trees: ("L", child, child, ...) with leaves ("U",), ("O",), ("V",)
def tree_wire_and_avp(A, t, gcode, gvendor, gflags):
    """Returns (reference wire bytes, library Avp) for a tree node."""
    kind = t[0]
    if kind == "U":
        return rc.u32(268, 7, M), A.Avp.new(268, value=7)
    if kind == "O":
        return rc.octets(264, b"x", M), A.Avp.new(264, value=b"x")           # 1-byte payload: padding inside a group
    if kind == "V":
        e = A.get_avp_dictionary_entry(1032, 10415)
        return (rc.enc_avp(1032, (1000).to_bytes(4, "big"), M if e.get("mandatory") else 0, 10415),
                A.Avp.new(1032, 10415, value=1000))
    kids = [tree_wire_and_avp(A, c, 456, 0, M) for c in t[1:]]
    wire = rc.grouped(gcode, [w for w, _ in kids], gflags, gvendor)
    a = A.Avp.new(gcode, gvendor, value=[x for _, x in kids])
    return wire, a


def compare_tree(avp, wire, depth=0):
    """Recursive structural comparison of a decoded library AVP against reference-decoded wire."""
    code, fl, vnd, payload, end = rc.dec_avp_at(wire, 0)
    if (avp.code, avp.flags, avp.vendor_id, avp.payload) != (code, fl, vnd, payload):
        return f"node mismatch at depth {depth}: {(avp.code, avp.flags, avp.vendor_id, avp.payload.hex()[:40])} != {(code, fl, vnd, payload.hex()[:40])}"
    if type(avp).__name__ == "AvpGrouped":
        kids = rc.dec_avps(payload)
        vals = avp.value
        if len(vals) != len(kids):
            return f"child count {len(vals)} != {len(kids)} at depth {depth}"
        pos = 0
        for child, (c, f, v, p) in zip(vals, kids):
            w = rc.enc_avp(c, p, f, v)
            r = compare_tree(child, w, depth + 1)
            if r:
                return r
    return None


def check_grouped(A, code, vendor, entry_mand, tree, m, p, out, ctx="dict"):
    case = {"code": code, "vendor": vendor, "tree": repr(tree), "m": m, "p": p, "ctx": ctx}
    fl = want_flags(entry_mand, m, p)
    try:
        kids = [tree_wire_and_avp(A, c, 456, 0, M) for c in tree[1:]]
        ref = rc.grouped(code, [w for w, _ in kids], fl, vendor)
        a = A.Avp.new(code, vendor, value=[x for _, x in kids], is_mandatory=m, is_private=p)
        wire = a.as_bytes()
        if wire != ref:
            out.append(Violation("avp:grouped:encode-mismatch", f"{case}: {wire.hex()[:100]} != {ref.hex()[:100]}", case))
            return
        d = A.Avp.from_bytes(ref)
        if type(d).__name__ != "AvpGrouped":
            out.append(Violation("avp:grouped:decode-wrong-class", f"{case}: {type(d).__name__}", case))
            return
        r = compare_tree(d, ref)
        if r:
            out.append(Violation("avp:grouped:decode-tree-mismatch", f"{case}: {r}", case))
            return
        if d.as_bytes() != ref:
            out.append(Violation("avp:grouped:reencode-mismatch", f"{case}", case))
        # decoding is a function of the bytes alone: editing one decoded object must not leak into the next decode
        kids_d = d.value
        if kids_d:
            k0 = kids_d[0]
            k0.is_private = not k0.is_private
            if type(k0).__name__ == "AvpUnsigned32":
                k0.value = 123456
            elif type(k0).__name__ == "AvpGrouped":
                k0.value = []
            else:
                k0.payload = b"edited!!"
        d2 = A.Avp.from_bytes(ref)
        r = compare_tree(d2, ref)
        if r:
            out.append(Violation("avp:grouped:decode-depends-on-an-earlier-decoded-object", f"{case}: after editing the first decode: {r}", case))
    except Exception as e:
        out.append(Violation("avp:grouped:raises", f"{case}: {type(e).__name__}: {e}", case))


def trees(max_children, depth, leafset=("U", "O", "V")):
    leaves = [(k,) for k in leafset]
    if depth <= 1:
        opts = leaves
    else:
        opts = leaves + trees(max_children, depth - 1, leafset)
    out = []
    for n in range(0, max_children + 1):
        for combo in itertools.product(opts, repeat=n):
            out.append(("L",) + combo)
    return out


def all_trees(tier):
    if tier == "thorough":
        ts = trees(3, 2) + trees(2, 3, ("U", "O"))
    else:
        ts = trees(2, 2) + trees(3, 1) + trees(1, 3)
    # single chains to depth 6
    for leaf in ("U", "O", "V"):
        t = (leaf,)
        for d in range(6):
            t = ("L", t)
            ts.append(t)
    return ts


def work_trees(args):
    lo, hi, tier = args
    A, D = lib()
    out = []
    ts = all_trees(tier)[lo:hi]
    for t in ts:
        check_grouped(A, 456, 0, True, t, None, None, out, "trees")
    for t in ts[:50]:
        check_grouped(A, 1016, 10415, True, t, None, True, out, "trees-vendor")     # vendor grouped (QoS-Information)
    return len(ts), len(ts), out


def work_misc(_):
    """Untyped AVPs, run-time registered definitions, unknown codes, vendor reset, zero-length data."""
    A, D = lib()
    import copy
    out = []
    n = 0
    # untyped / unknown (code, vendor)
    for code, vnd in ((9_000_001, 0), (9_000_002, 99_999), (268, 424242), (1, 10415 + 1), (0xffffffff, 0xffffffff)):
        for L in range(0, 17):
            payload = bytes((i * 13 + 1) & 0xff for i in range(L))
            for fl in (0, M, P, M | P, 0x01, M | 0x1f):
                n += 1
                w = rc.enc_avp(code, payload, fl, vnd)
                case = {"code": code, "vendor": vnd, "len": L, "flags": fl}
                try:
                    d = A.Avp.from_bytes(w)
                    if type(d) is not A.Avp or (d.code, d.vendor_id, d.flags, d.payload, d.value) != (code, vnd, fl | (V if vnd else 0), payload, payload):
                        out.append(Violation("avp:raw:decode-mismatch", f"{case}", case))
                    elif d.as_bytes() != w:
                        out.append(Violation("avp:raw:reencode-mismatch", f"{case}", case))
                    a = A.Avp(code, vnd, payload, fl)
                    if a.as_bytes() != w:
                        out.append(Violation("avp:raw:encode-mismatch", f"{case}: {a.as_bytes().hex()} != {w.hex()}", case))
                    try:
                        A.Avp.new(code, vnd, value=payload)
                        if D.AVP_DICTIONARY.get(code) is None or vnd:
                            out.append(Violation("avp:raw:new-accepts-unknown-code", f"{case}", case))
                    except ValueError:
                        pass
                except Exception as e:
                    out.append(Violation("avp:raw:raises", f"{case}: {type(e).__name__}: {e}", case))
    # vendor id set / reset after creation moves the V flag and the vendor word
    for start_v, new_v in ((0, 10415), (10415, 0), (10415, 193), (0, 0)):
        n += 1
        a = A.AvpUnsigned32(268, start_v)
        a.value = 9
        a.is_mandatory = True
        a.vendor_id = new_v
        w = rc.u32(268, 9, M, new_v)
        if a.as_bytes() != w or a.is_vendor != bool(new_v):
            out.append(Violation("avp:vendor-reset:flag-or-word-wrong", f"{start_v}->{new_v}: {a.as_bytes().hex()} != {w.hex()}",
                                 {"from": start_v, "to": new_v}))
    # run-time registered definitions for every type: new vendor, existing vendor, base dictionary
    snap = (copy.copy(D.AVP_DICTIONARY), {k: dict(v) for k, v in D.AVP_VENDOR_DICTIONARY.items()})
    try:
        i = 0
        for clsname, tn in rc.TYPE_NAMES.items():
            if tn in ("raw",):
                continue
            cls = getattr(A, clsname)
            for vnd in (None, 10415, 7_777_777):
                for mand in (True, False, None):
                    i += 1
                    code = 8_000_000 + i
                    v = vnd or 0
                    # the code is looked up and decoded while still unknown (start values of any lookup cache)
                    n += 1
                    pre = A.Avp.from_bytes(rc.enc_avp(code, b"\x00\x00\x00\x01", 0, v))
                    if type(pre) is not A.Avp or A.get_avp_dictionary_entry(code, v) is not None:
                        out.append(Violation("avp:registered:known-before-registration", f"{code}/{v}", {"code": code, "vendor": v}))
                    try:
                        A.Avp.new(code, v)
                        out.append(Violation("avp:raw:new-accepts-unknown-code", f"{code}/{v}", {"code": code, "vendor": v}))
                    except ValueError:
                        pass
                    A.register(code, f"Verif-Test-{i}", cls, vendor=vnd, mandatory=mand)
                    if tn == "grouped":
                        for t in (("L",), ("L", ("U",), ("L", ("O",)))):
                            n += 1
                            check_grouped(A, code, v, mand, t, None, None, out, "registered")
                    else:
                        for val in LIGHT[tn]:
                            for m, p in ((None, None), (True, True), (False, None)):
                                n += 1
                                check_scalar(A, code, v, cls, tn, mand, val, m, p, out, "registered")
    finally:
        D.AVP_DICTIONARY.clear()
        D.AVP_DICTIONARY.update(snap[0])
        D.AVP_VENDOR_DICTIONARY.clear()
        D.AVP_VENDOR_DICTIONARY.update(snap[1])
    return n, n, out


def run(tier):
    rep = Report("C01", tier, "exploration")
    common.pool()
    A, D = lib()
    ents = entries()
    reps = {}
    for code, vnd, e in ents:
        tn = tname_of(e["type"])
        if tn and tn not in reps and tn != "grouped":
            reps[tn] = (code, vnd, e.get("mandatory"), e["type"].__name__)
    # a vendor-specific representative too, where the dictionary has one
    vreps = {}
    for code, vnd, e in ents:
        tn = tname_of(e["type"])
        if vnd and tn and tn not in vreps and tn != "grouped":
            vreps[tn] = (code, vnd, e.get("mandatory"), e["type"].__name__)
    jobs = []
    nent = len(ents)
    # full type matrix on a seed-rotated eighth of the dictionary (quick) / all of it (thorough)
    eighth = common.seed() % 8
    for lo in range(0, nent, 60):
        full = True
        jobs.append((work_dict, (lo, min(nent, lo + 60), full)))
    for tn, rp in list(reps.items()) + [(t, r) for t, r in vreps.items() if t in ("u32", "utf8", "addr", "time", "octets")]:
        size = len(alphabet(tn, tier)[0])
        step = 3000
        for lo in range(0, size, step):
            jobs.append((work_type, (tn, lo, lo + step, tier, rp)))
    nt = len(all_trees(tier))
    for lo in range(0, nt, 400):
        jobs.append((work_trees, (lo, lo + 400, tier)))
    jobs.append((work_misc, None))
    total = 0
    distinct = 0
    for n, d, vs in common.pmap(_call, jobs, chunksize=1):
        total += n
        distinct += d
        rep.extend(vs)
    rep.sample({"type_representatives": {k: v[:2] for k, v in reps.items()}, "dictionary_entries": nent,
                "grouped_trees": nt, "full_matrix_eighth": eighth if tier != "thorough" else "all"})
    rep.sample({"example_case": "Avp.new(461, value='abcd\\U0001f600') vs enc_avp(461, utf8, M)"})
    rep.cov.update({"evaluations": total, "distinct_nontrivial": distinct, "exhaustive": True,
                    "rule": "per type the full value alphabet (DESIGN 3 C01) on a representative entry; every dictionary entry x light "
                            "slice x 4 M/P choices (full alphabet on a VERIF_SEED-rotated eighth in quick, all in thorough); grouped trees; "
                            "run-time registered definitions; unknown codes; each case = encode vs refcodec, decode of 4 flag variants, "
                            "re-encode; out-of-domain values must raise and leave the payload untouched; cases are distinct by construction"})
    rep.assumptions += ["process TZ=UTC", "refcodec (RFC 6733 4.1-4.4, RFC 5905 eras) is the oracle"]
    return rep.finish()


def _call(job):
    f, a = job
    return f(a)


def replay(case):
    A, D = lib()
    out = []
    if "tree" in case:
        check_grouped(A, case["code"], case["vendor"], True, eval(case["tree"]), case.get("m"), case.get("p"), out)
    elif "bad" in case:
        tn = case["type"]
        good, bad = alphabet(tn, "thorough")
        for b in bad:
            if repr(b) == case["bad"]:
                check_bad(A, case["code"], case["vendor"], tn, LIGHT[tn][1] if tn != "f32" else 1.5, b, out)
    elif "value" in case and "type" in case:
        tn = case["type"]
        e = A.get_avp_dictionary_entry(case["code"], case["vendor"])
        good, bad = alphabet(tn, "thorough")
        for v in good + LIGHT[tn]:
            if repr(v) == case["value"]:
                check_scalar(A, case["code"], case["vendor"], e["type"], tn, e.get("mandatory"), v, case.get("m"), case.get("p"), out, "replay")
                break
    else:
        n, d, out = work_misc(None)
    return out
