"""C02 - message codec byte-exact; class dispatch; AVP search.

E1 against refcodec: header field space, every registered code x R bit, 1,885 bodies over a
13-AVP alphabet, whole-dictionary messages, nesting chains, a 64 KiB message, and every
ordering of 1..3 distinct search paths on freshly decoded messages.
"""
from __future__ import annotations

import itertools

from .. import common, refcodec as rc
from ..common import Report, Violation
from . import c01

M, P, V = rc.FLAG_M, rc.FLAG_P, rc.FLAG_V
U32B = [0, 1, 0x80000000, 0xffffffff]


def libs():
    from diameter.message import Message, MessageHeader
    from diameter.message._base import DefinedMessage, UndefinedMessage
    from diameter.message import commands
    return Message, MessageHeader, DefinedMessage, UndefinedMessage, commands


# ------------------------------------------------------------------ body alphabet
def body_alphabet():
    g3 = rc.grouped(279, [rc.u32(268, 5)])
    g2 = rc.grouped(437, [g3, rc.u32(420, 9)])
    g = rc.grouped(456, [g2, rc.u32(432, 1), rc.grouped(437, [rc.u32(420, 3)])])
    return [
        rc.u32(268, 2001),                                  # 0 unsigned
        rc.octets(264, b"x"),                               # 1 one-byte payload -> padding
        rc.utf8(263, "sé;1"),                          # 2 utf8
        rc.enc_avp(1032, (1004).to_bytes(4, "big"), M, 10415),  # 3 vendor AVP
        g,                                                  # 4 nested groups, depth 3
        rc.u32(268, 5012, M | P),                           # 5 repeated code, other flags
        rc.enc_avp(9_000_001, b"\x01\x02\x03", 0, 0),       # 6 unknown AVP
        rc.enc_avp(1032, b"same-code-no-vendor", 0, 0),     # 7 same code, vendor 0
        rc.enc_avp(1032, b"\x00\x00\x00\x07", P, 193),      # 8 same code, another vendor
        rc.addr(257, "2001:db8::1"),                        # 9 address
        rc.enc_avp(1, b"", M, 0),                           # 10 empty payload: an AVP of exactly 8 bytes
        rc.grouped(456, [rc.u32(432, 1), rc.grouped(437, [])]),   # 11 group whose last child is an empty 8-byte group
        rc.enc_avp(9_000_002, b"", M, 10415),               # 12 vendor AVP (no dictionary type) with an empty data part: exactly 12 bytes
    ]


PATHS = [
    ((268, 0),), ((264, 0),), ((1032, 0),), ((1032, 10415),), ((1032, 193),), ((456, 0),), ((999, 0),),
    ((9_000_001, 0),), ((456, 0), (437, 0)), ((456, 0), (432, 0)), ((456, 0), (999, 0)), ((456, 0), (1032, 10415)),
    ((456, 0), (437, 0), (420, 0)), ((456, 0), (437, 0), (279, 0)), ((456, 0), (437, 0), (279, 0), (268, 0)),
    ((456, 0), (437, 0), (279, 0), (420, 0)), ((999, 0), (268, 0)), ((456, 10415), (437, 0)),
]


def ref_find(avps, path):
    """Reference tree walk: AVPs located at path, wire order (depth-first in wire order)."""
    (c, v) = path[0]
    out = []
    for code, fl, vnd, payload in avps:
        if code == c and vnd == v:
            if len(path) == 1:
                out.append((code, fl, vnd, payload))
            else:
                out += ref_find(rc.dec_avps(payload), path[1:])
    return out


def avp_sig(a):
    return (a.code, a.flags, a.vendor_id, a.payload)


def compare_avps(got, wire_body):
    ref = rc.dec_avps(wire_body)
    if len(got) != len(ref):
        return f"{len(got)} AVPs decoded, {len(ref)} on the wire"
    for a, (c, f, v, p) in zip(got, ref):
        w = rc.enc_avp(c, p, f, v)
        r = c01.compare_tree(a, w)
        if r:
            return r
    return None


# ------------------------------------------------------------------ work items
def work_header(args):
    part, = args
    Message, MessageHeader, DefinedMessage, UndefinedMessage, commands = libs()
    out = []
    n = 0
    codes_known = sorted(commands.all_commands)
    cases = []
    if part == "alone":
        for ver in (0, 1, 255):
            cases.append((ver, 0x80, 8_000_000, 1, 2, 3))
        for fl in range(256):
            cases.append((1, fl, 8_000_000, 1, 2, 3))
            cases.append((1, fl, 272, 4, 2, 3))             # typed command: header identity holds for typed decodes too
            cases.append((1, fl, 283, 4, 2, 3))             # untyped command
        for code in [0, 1, 8_000_000, (1 << 24) - 1] + codes_known:
            cases.append((1, 0x80, code, 1, 2, 3))
            cases.append((1, 0x00, code, 1, 2, 3))
        for x in U32B:
            cases.append((1, 0x80, 8_000_000, x, 2, 3))
            cases.append((1, 0x80, 8_000_000, 1, x, 3))
            cases.append((1, 0x80, 8_000_000, 1, 2, x))
    else:
        for ver, fl, code, app, hbh, e2e in itertools.product((0, 1, 255), (0x00, 0x80, 0xff), (0, 257, (1 << 24) - 1),
                                                              (0, 0x80000000, 0xffffffff), (0, 1, 0xffffffff), (0, 0x7fffffff, 0xffffffff)):
            cases.append((ver, fl, code, app, hbh, e2e))
    for ver, fl, code, app, hbh, e2e in cases:
        for body in (b"", rc.u32(268, 2001) + rc.octets(264, b"x")):
            n += 1
            wire = rc.enc_header(ver, 20 + len(body), fl, code, app, hbh, e2e) + body
            case = {"hdr": [ver, fl, code, app, hbh, e2e], "body": len(body)}
            try:
                h = MessageHeader.from_bytes(wire)
                if (h.version, h.length, h.command_flags, h.command_code, h.application_id, h.hop_by_hop_identifier,
                        h.end_to_end_identifier) != (ver, len(wire), fl, code, app, hbh, e2e):
                    out.append(Violation("header:from_bytes-mismatch", f"{case}", case))
                if (h.is_request, h.is_proxyable, h.is_error, h.is_retransmit) != (bool(fl & 0x80), bool(fl & 0x40), bool(fl & 0x20), bool(fl & 0x10)):
                    out.append(Violation("header:flag-properties-mismatch", f"{case}", case))
                if h.as_bytes() != wire[:20]:
                    out.append(Violation("header:as_bytes-mismatch", f"{case}: {h.as_bytes().hex()} != {wire[:20].hex()}", case))
                m = Message.from_bytes(wire)
                mh = m.header
                got = (mh.version, mh.command_flags, mh.command_code, mh.application_id, mh.hop_by_hop_identifier, mh.end_to_end_identifier)
                if got != (ver, fl, code, app, hbh, e2e):
                    kind = "typed" if isinstance(m, DefinedMessage) else "generic"
                    which = [nme for nme, a, b in zip(("version", "flags", "code", "app", "hbh", "e2e"), got, (ver, fl, code, app, hbh, e2e)) if a != b]
                    out.append(Violation(f"decode:header-differs-from-wire:{kind}:{'+'.join(which)}",
                                         f"{case}: decoded {got} ({type(m).__name__})", case))
                # generic decode reproduces the input and the length field
                g = Message.from_bytes(wire, plain_msg=True)
                if not isinstance(g, DefinedMessage) or True:
                    enc = g.as_bytes()
                    if enc != wire and (g.header.command_code == code):
                        out.append(Violation("generic-decode:reencode-mismatch", f"{case}: {enc.hex()[:80]} != {wire.hex()[:80]}", case))
                    elif g.header.length != len(wire):
                        out.append(Violation("encode:length-field-wrong", f"{case}: {g.header.length} != {len(wire)}", case))
                # encode direction: a hand-built generic message
                nm = Message()
                nm.header.version, nm.header.command_flags, nm.header.command_code = ver, fl, code
                nm.header.application_id, nm.header.hop_by_hop_identifier, nm.header.end_to_end_identifier = app, hbh, e2e
                for c, f, v, p in rc.dec_avps(body):
                    from diameter.message.avp import Avp
                    nm.append_avp(Avp(c, v, p, f))
                if nm.as_bytes() != wire:
                    out.append(Violation("encode:built-message-mismatch", f"{case}: {nm.as_bytes().hex()[:80]} != {wire.hex()[:80]}", case))
            except Exception as e:
                out.append(Violation("header:raises", f"{case}: {type(e).__name__}: {e}", case))
    return n, out


def expected_class(commands, DefinedMessage, UndefinedMessage, code, is_request):
    base = commands.all_commands.get(code)
    if base is None:
        return UndefinedMessage
    want = base.__name__ + ("Request" if is_request else "Answer")
    for s in base.__subclasses__():
        if s.__name__ == want:
            return s
    return base


def work_dispatch(_):
    Message, MessageHeader, DefinedMessage, UndefinedMessage, commands = libs()
    out = []
    n = 0
    snap = dict(commands.all_commands)
    try:
        class VerifCommand(DefinedMessage):
            code = 8_123_456
            name = "Verif-Command"

            def __post_init__(self):
                self.header.command_code = self.code
                super().__post_init__()
        # decoded while still unknown, then registered, then decoded again (any dispatch cache must follow)
        pre_wire = rc.enc_msg(8_123_456, 0x80, 0, 1, 2, [rc.u32(268, 1)])
        for fl in (0x80, 0x00):
            n += 1
            pre = Message.from_bytes(rc.enc_msg(8_123_456, fl, 0, 1, 2, [rc.u32(268, 1)]))
            if type(pre) is not UndefinedMessage:
                out.append(Violation("dispatch:unknown-code-not-generic", f"8123456: {type(pre).__name__}", {"code": 8_123_456}))
        commands.register(VerifCommand)
        for fl in (0x80, 0x00):
            n += 1
            post = Message.from_bytes(rc.enc_msg(8_123_456, fl, 0, 1, 2, [rc.u32(268, 1)]))
            if type(post) is not VerifCommand:
                out.append(Violation("dispatch:run-time-registration-not-honoured-after-earlier-decode",
                                     f"{type(post).__name__} after register()", {"code": 8_123_456}))

        class VerifCommand2(DefinedMessage):
            code = 8_123_456
            name = "Verif-Command-2"

            def __post_init__(self):
                self.header.command_code = self.code
                super().__post_init__()
        commands.register(VerifCommand2)
        n += 1
        post = Message.from_bytes(pre_wire)
        if type(post) is not VerifCommand2:
            out.append(Violation("dispatch:re-registration-not-honoured", f"{type(post).__name__}", {"code": 8_123_456}))
        commands.register(VerifCommand)
        names = {}
        for code, cls in sorted(commands.all_commands.items()):
            if getattr(cls, "code", None) != code:
                out.append(Violation("registry:key-differs-from-class-code", f"{code}: {cls.__name__}.code={getattr(cls, 'code', None)}", {"code": code}))
            # every combination of the four defined flag bits (+ one with reserved bits) x application ids {0, 4, 2^32-1} x boundary ids
            for fl, app in [(f, 4) for f in list(range(0, 256, 16)) + [0x8f]] + [(f, a) for f in (0x80, 0x00, 0xc0, 0x60) for a in (0, 0xffffffff)]:
                n += 1
                hbh, e2e = (7, 9) if app == 4 else (0, 0xffffffff)
                wire = rc.enc_msg(code, fl, app, hbh, e2e, [rc.utf8(263, "s;1"), rc.u32(268, 2001)])
                case = {"code": code, "flags": fl, "application_id": app}
                try:
                    m = Message.from_bytes(wire)
                    want = expected_class(commands, DefinedMessage, UndefinedMessage, code, bool(fl & 0x80))
                    if type(m) is not want:
                        out.append(Violation("dispatch:wrong-class", f"{case}: {type(m).__name__}, want {want.__name__}", case))
                    if m.header.command_code != code:
                        out.append(Violation("dispatch:command-code-changed", f"{case}: {m.header.command_code}", case))
                    mh = m.header
                    got = (mh.version, mh.command_flags, mh.command_code, mh.application_id, mh.hop_by_hop_identifier, mh.end_to_end_identifier)
                    if got != (1, fl, code, app, hbh, e2e):
                        out.append(Violation("decode:header-differs-from-wire:typed:per-command", f"{case}: decoded {got} ({type(m).__name__})", case))
                    pm = Message.from_bytes(wire, plain_msg=True)
                    if type(pm) is not commands.all_commands[code]:
                        out.append(Violation("dispatch:plain-wrong-class", f"{case}: {type(pm).__name__}", case))
                    if pm.as_bytes() != wire:
                        out.append(Violation("generic-decode:reencode-mismatch:per-command", f"{case}: {pm.as_bytes().hex()[:60]} != {wire.hex()[:60]}", case))
                except Exception as e:
                    out.append(Violation("dispatch:raises", f"{case}: {type(e).__name__}: {e}", case))
        for code in (0, 2, 8_000_000, (1 << 24) - 1):
            for fl in (0x80, 0):
                n += 1
                m = Message.from_bytes(rc.enc_msg(code, fl, 0, 1, 1, [rc.u32(268, 1)]))
                if type(m) is not UndefinedMessage:
                    out.append(Violation("dispatch:unknown-code-not-generic", f"{code}: {type(m).__name__}", {"code": code}))
    finally:
        commands.all_commands.clear()
        commands.all_commands.update(snap)
    return n, out


def bodies(tier="quick"):
    alpha = body_alphabet()
    out = []
    for L in range(0, 4):
        for idx in itertools.product(range(len(alpha)), repeat=L):
            out.append(idx)
    if tier == "thorough":
        # sequences of 4 and 5 over a sub-alphabet that keeps the collisions (repeated code, same code under 3 vendors, groups, 8-byte AVP)
        sub = (0, 3, 4, 5, 7, 8, 10, 11)
        for L in (4, 5):
            for idx in itertools.product(sub, repeat=L):
                if L == 5 and (sum(idx) + len(set(idx))) % 4:
                    continue
                out.append(idx)
    return out


def work_bodies(args):
    lo, hi, with_search, tier = args
    Message, MessageHeader, DefinedMessage, UndefinedMessage, commands = libs()
    alpha = body_alphabet()
    out = []
    n = 0
    for idx in bodies(tier)[lo:hi]:
        body = b"".join(alpha[i] for i in idx)
        for code, plain in ((8_000_000, False), (272, True), (283, False)):
            n += 1
            wire = rc.enc_msg(code, 0x80, 4, 0x11, 0x22, [body])
            case = {"body": list(idx), "code": code, "plain": plain}
            try:
                m = Message.from_bytes(wire, plain_msg=plain)
                r = compare_avps(m.avps, body)
                if r:
                    out.append(Violation("generic-decode:avp-sequence-differs", f"{case}: {r}", case))
                    continue
                enc = m.as_bytes()
                if enc != wire:
                    out.append(Violation("generic-decode:reencode-mismatch", f"{case}: {enc.hex()[:100]} != {wire.hex()[:100]}", case))
                    continue
                if m.header.length != len(wire):
                    out.append(Violation("encode:length-field-wrong", f"{case}: {m.header.length}", case))
            except Exception as e:
                out.append(Violation("generic-decode:raises", f"{case}: {type(e).__name__}: {e}", case))
                continue
        if not with_search:
            continue
        # search: every ordering of 1..3 distinct paths on a freshly decoded message
        wire = rc.enc_msg(8_000_000, 0x80, 4, 0x11, 0x22, [body])
        top = rc.dec_avps(body)
        present = {(c, v) for c, f, v, p in top}
        # induced path alphabet: keep paths whose first element is present or deliberately absent
        paths = [p for p in PATHS if p[0] in present or p[0] in ((999, 0), (456, 10415))]
        if 4 not in idx:
            paths = [p for p in paths if len(p) == 1 or p[0] != (456, 0)] + [((456, 0), (437, 0))]
        refs = {p: ref_find(top, p) for p in paths}
        seqs = [(p,) for p in paths]
        seqs += list(itertools.permutations(paths, 2))
        if len(paths) <= 9 or tier == "thorough":
            seqs += list(itertools.permutations(paths, 3)) if len(idx) <= 3 else []
        else:
            seqs += [s for s in itertools.permutations(paths, 3) if (hash(s) + lo) % 7 == 0] if False else \
                    [s for k, s in enumerate(itertools.permutations(paths, 3)) if k % 5 == (lo + len(idx)) % 5]
        for seq in seqs:
            n += 1
            try:
                m = Message.from_bytes(wire)
                for p in seq:
                    got = [avp_sig(a) for a in m.find_avps(*p)]
                    if got != refs[p]:
                        first = "first-search" if p is seq[0] else "after-earlier-searches"
                        out.append(Violation(f"find_avps:wrong-result:{first}:pathlen{len(p)}",
                                             f"body {idx} searches {seq} path {p}: got {[(g[0], g[2]) for g in got]} want {[(g[0], g[2]) for g in refs[p]]}",
                                             {"body": list(idx), "seq": [list(map(list, s)) for s in seq]}))
                        break
            except Exception as e:
                out.append(Violation("find_avps:raises", f"body {idx} searches {seq}: {type(e).__name__}: {e}", {"body": list(idx)}))
    return n, out


def work_big(_):
    """Whole dictionary in 40-AVP messages, nesting chains to depth 6, one 64 KiB message."""
    Message, MessageHeader, DefinedMessage, UndefinedMessage, commands = libs()
    A, D = c01.lib()
    out = []
    n = 0
    ents = c01.entries()
    avps = []
    for code, vnd, e in ents:
        tn = c01.tname_of(e["type"])
        fl = M if e.get("mandatory") else 0
        if tn == "grouped":
            avps.append(rc.grouped(code, [rc.u32(268, 1), rc.octets(264, b"ab")], fl, vnd))
        else:
            v = c01.LIGHT[tn][1]
            avps.append(rc.enc_avp(code, rc.enc_value(tn, v), fl, vnd))
    msgs = [avps[i:i + 40] for i in range(0, len(avps), 40)]
    # nesting chains to depth 6 and a 64 KiB message
    for leaf in (rc.u32(268, 1), rc.octets(264, b"x")):
        t = leaf
        for d in range(6):
            t = rc.grouped(456, [t])
            msgs.append([t, leaf])
    msgs.append([rc.octets(25, bytes(65000)), rc.u32(268, 1)] + [rc.octets(264, b"abc")] * 20)
    for k, lst in enumerate(msgs):
        body = b"".join(lst)
        for code in (8_000_000, 283):
            n += 1
            wire = rc.enc_msg(code, 0x80, 4, k, k + 1, [body])
            case = {"msg": k, "avps": len(lst), "code": code}
            try:
                m = Message.from_bytes(wire)
                r = compare_avps(m.avps, body)
                if r:
                    out.append(Violation("generic-decode:avp-sequence-differs", f"{case}: {r}", case))
                elif m.as_bytes() != wire:
                    out.append(Violation("generic-decode:reencode-mismatch", f"{case}", case))
                # decoded AVP classes follow the dictionary
                for a, (c, f, v, p) in zip(m.avps, rc.dec_avps(body)):
                    e = A.get_avp_dictionary_entry(c, v)
                    want = e["type"] if e else A.Avp
                    if type(a) is not want:
                        out.append(Violation("generic-decode:avp-class-not-from-dictionary", f"{c}/{v}: {type(a).__name__}", {"code": c, "vendor": v}))
            except Exception as e:
                out.append(Violation("generic-decode:raises", f"{case}: {type(e).__name__}: {e}", case))
    return n, out


def _seq_messages():
    """Four generically decodable wires (reference-built) and two message objects whose encoding fails part-way through."""
    Message, MessageHeader, DefinedMessage, UndefinedMessage, commands = libs()
    A, D = c01.lib()
    alpha = body_alphabet()
    wires = [rc.enc_msg(8_000_000 + i, 0x80 if i % 2 == 0 else 0, 4, 10 + i, 20 + i, list(alpha[i:i + 1 + i % 3])) for i in range(4)]

    def bad(kind):
        m = Message()
        m.header.command_code = 8_000_050
        m.append_avp(A.Avp.new(264, value=b"first-avp-packs-fine"))
        a = A.Avp(code=1)
        if kind == "str-payload":
            a.payload = "not bytes"         # packing the payload raises after earlier AVPs were packed
        else:
            a.code = 2 ** 40                # packing the code raises
        m.append_avp(a)
        m.append_avp(A.Avp.new(296, value=b"never-reached"))
        return m
    return wires, bad


def work_sequences(_):
    """Every sequence of length <= 3 over {encode message i (4 messages), failing encode (2 kinds)}: each successful encode of
    a generically decoded message must reproduce its wire whatever was encoded (or failed to encode) before it."""
    Message, MessageHeader, DefinedMessage, UndefinedMessage, commands = libs()
    out = []
    n = 0
    wires, bad = _seq_messages()
    ops = [("enc", i) for i in range(len(wires))] + [("bad", "str-payload"), ("bad", "huge-code")]
    for L in (1, 2, 3):
        for seq in itertools.product(ops, repeat=L):
            if seq[-1][0] != "enc" or not any(o[0] == "bad" for o in seq):
                continue        # (sequences of successful encodes only are covered by the body enumeration)
            n += 1
            msgs = [Message.from_bytes(w) for w in wires]
            case = {"sequence": [list(o) for o in seq]}
            try:
                for kind, arg in seq:
                    if kind == "bad":
                        try:
                            bad(arg).as_bytes()
                            out.append(Violation("encode:unencodable-message-encoded", f"{case}", case))
                        except Exception:
                            pass
                    else:
                        got = msgs[arg].as_bytes()
                        if got != wires[arg]:
                            out.append(Violation("encode:result-depends-on-an-earlier-failed-encode",
                                                 f"{case}: message {arg}: {len(got)} bytes {got.hex()[:80]} != wire {len(wires[arg])} bytes", case))
                            break
            except Exception as e:
                out.append(Violation("encode:raises-after-an-earlier-failed-encode", f"{case}: {type(e).__name__}: {e}", case))
    return n, out


def _race_jobs():
    Message, MessageHeader, DefinedMessage, UndefinedMessage, commands = libs()
    wires, bad = _seq_messages()
    m0, m1 = Message.from_bytes(wires[2]), Message.from_bytes(wires[3])
    return [("encode-a", m0.as_bytes), ("encode-b", m1.as_bytes)]


def _race_jobs_decode():
    Message, MessageHeader, DefinedMessage, UndefinedMessage, commands = libs()
    wires, bad = _seq_messages()
    import functools as _ft
    return [("decode-encode-a", _ft.partial(_dec_enc, wires[1])), ("encode-b", Message.from_bytes(wires[2]).as_bytes)]


def _dec_enc(w):
    Message = libs()[0]
    return Message.from_bytes(w).as_bytes()


def _call(job):
    f, a = job
    return f(a)


def run(tier):
    rep = Report("C02", tier, "exploration")
    common.pool()
    nb = len(bodies(tier))
    jobs = [(work_header, ("alone",)), (work_header, ("product",)), (work_dispatch, None), (work_big, None), (work_sequences, None)]
    step = 12
    for lo in range(0, nb, step):
        jobs.append((work_bodies, (lo, lo + step, True, tier)))
    total = 0
    for n, vs in common.pmap(_call, jobs, chunksize=1):
        total += n
        rep.extend(vs)
    # two threads encode / decode different messages at the same time (as two connections' writer and reader threads do): every
    # interleaving with <= 1 (quick) / 2 (thorough) preemptions at call granularity inside the codec; results = sequential results
    from .. import codecrace
    nrace = 0
    for name, mk in (("two-encodes", _race_jobs), ("decode+encode-vs-encode", _race_jobs_decode)):
        r = codecrace.explore(mk, bound=2 if tier == "thorough" else 1, time_cap=300)
        nrace += r["executions"]
        for (key, detail), choices in r["violations"]:
            rep.add(Violation(f"{key}", f"[{name}] schedule {choices}: {detail}", {"race": name, "choices": choices}))
        rep.sample({"two_threads": name, "schedules": r["executions"], "distinct_outcomes": len(r["outcomes"]), "capped": r["capped"]})
    rep.cov["schedules"] = nrace
    total += nrace
    rep.sample({"bodies": nb, "body_alphabet": len(body_alphabet()), "search_paths": [list(map(list, p)) for p in PATHS[:6]]})
    rep.sample({"example": "decode enc_msg(272, flags=0x10, ...) -> header fields equal the wire; find_avps((456,0),(437,0),(279,0),(268,0))"})
    rep.cov.update({"evaluations": total, "distinct_nontrivial": total, "exhaustive": True,
                    "rule": "header: every field over its boundary set alone (all 256 flag octets, every registered code, boundary ids) + "
                            "3^6 product; dispatch: every registered code (+1 run-time registered, unknown codes) x 6 flag octets; bodies: all "
                            "2,380 sequences of length 0..3 over a 13-AVP alphabet x {unknown code, typed code plain_msg, untyped code}; the "
                            "whole dictionary in 40-AVP messages, chains to depth 6, a 64 KiB message; search: every ordering of 1..3 distinct "
                            "paths from the induced path alphabet (3-permutations: all when <= 9 paths, else a fixed fifth) on a fresh decode"})
    rep.assumptions += ["AVP order identity and byte-exact re-encoding are required of generic decodes only (typed classes document regrouping)"]
    return rep.finish()


def replay(case):
    out = []
    if "hdr" in case:
        for part in ("alone", "product"):
            out += [v for v in work_header((part,))[1] if v.case.get("hdr") == case["hdr"]]
    elif "body" in case:
        bs = bodies("thorough")
        i = bs.index(tuple(case["body"]))
        out += work_bodies((i, i + 1, True, "thorough"))[1]
    elif "sequence" in case:
        out += [v for v in work_sequences(None)[1] if v.case.get("sequence") == case["sequence"]]
    elif "race" in case:
        from .. import codecrace, scheddfs
        import functools
        mk = {"two-encodes": _race_jobs, "decode+encode-vs-encode": _race_jobs_decode}[case["race"]]
        names = [n for n, _ in mk()]
        seq = codecrace.sequential_results(mk)
        obs, ch = scheddfs.replay_choices(functools.partial(codecrace._exec, mk), case["choices"])
        out += [Violation(k, d) for k, d in codecrace._check(names, seq, obs)]
    else:
        out += work_dispatch(None)[1] + work_big(None)[1]
    return out
