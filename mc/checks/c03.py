"""C03 - typed command / grouped-container attributes map 1:1 onto dictionary AVPs and round-trip.

E1, exhaustive over programs (every class and every AvpGenDef), with a fixed type-directed
value alphabet and the subset classes of DESIGN 3 C03.  The oracle is a byte-exact
reference encoding produced by refcodec from a parallel specification tree.
"""
from __future__ import annotations

import functools

import dataclasses
import datetime
import ipaddress
import math

from .. import common, refcodec as rc
from ..common import Report, Violation
from . import c01

M = rc.FLAG_M

VALUES = {   # third value: a valid but falsy one where the type has it
    "i32": [-7, 2147483647, 0], "i64": [-(1 << 40), 5, 0], "u32": [7, 4294967295, 0], "u64": [1 << 40, 9, 0],
    "f32": [1.5, -0.25, 0.0], "f64": [2.5e10, -1e-3, 0.0], "utf8": ["valué", "x", ""], "octets": [b"\x01\x02\x03", b"host.example", b""],
    "time": [datetime.datetime(2024, 5, 6, 7, 8, 9), datetime.datetime(2040, 1, 2, 3, 4, 5), datetime.datetime(1970, 1, 1)],
    "addr": ["10.1.2.3", "2001:db8::5", "0.0.0.0"], "raw": [b"raw", b"r", b""],
}


def lib():
    from diameter.message import Message
    from diameter.message._base import DefinedMessage, UndefinedMessage
    from diameter.message.avp import avp as A, grouped as G
    from diameter.message.avp.generator import AvpGenDef
    return Message, DefinedMessage, UndefinedMessage, A, G, AvpGenDef


def all_classes():
    Message, DefinedMessage, UndefinedMessage, A, G, AvpGenDef = lib()

    def subs(c):
        for s in c.__subclasses__():
            yield s
            yield from subs(s)
    msgs = [c for c in subs(DefinedMessage) if isinstance(c.__dict__.get("avp_def", None), tuple)]
    conts = []
    seen = set()

    def add(c):
        if c in seen:
            return
        seen.add(c)
        conts.append(c)
        for d in getattr(c, "avp_def", ()) or ():
            if isinstance(d, AvpGenDef) and d.type_class is not None:
                add(d.type_class)
    for n in G.__all__:
        add(getattr(G, n))
    for m in msgs:
        for d in m.avp_def:
            if d.type_class is not None:
                add(d.type_class)
    return msgs, conts


def defs_of(cls):
    Message, DefinedMessage, UndefinedMessage, A, G, AvpGenDef = lib()
    d = getattr(cls, "avp_def", ()) or ()
    return [x for x in d if isinstance(x, AvpGenDef)]


# ------------------------------------------------------------------ static obligations
def static_check(cls, kind):
    Message, DefinedMessage, UndefinedMessage, A, G, AvpGenDef = lib()
    out = []
    seen_avp = {}
    seen_attr = {}
    for d in defs_of(cls):
        case = {"class": cls.__name__, "attr": d.attr_name, "code": d.avp_code, "vendor": d.vendor_id}
        e = A.get_avp_dictionary_entry(d.avp_code, d.vendor_id)
        if e is None:
            out.append(Violation(f"def:{cls.__name__}.{d.attr_name}:no-dictionary-entry",
                                 f"({d.avp_code}, {d.vendor_id}) is not in the dictionary", case))
        else:
            is_grouped = c01.tname_of(e["type"]) == "grouped"
            if is_grouped and d.type_class is None:
                out.append(Violation(f"def:{cls.__name__}.{d.attr_name}:grouped-avp-without-container",
                                     f"{e['name']} ({d.avp_code},{d.vendor_id}) is Grouped, definition has no container class", case))
            if not is_grouped and d.type_class is not None:
                out.append(Violation(f"def:{cls.__name__}.{d.attr_name}:container-for-non-grouped-avp",
                                     f"{e['name']} ({d.avp_code},{d.vendor_id}) is {e['type'].__name__}, definition names container {d.type_class.__name__}", case))
        k = (d.avp_code, d.vendor_id)
        if k in seen_avp:
            out.append(Violation(f"def:{cls.__name__}.{d.attr_name}:same-avp-as-{seen_avp[k]}",
                                 f"({d.avp_code},{d.vendor_id}) already denoted by attribute {seen_avp[k]}", case))
        seen_avp.setdefault(k, d.attr_name)
        if d.attr_name in seen_attr:
            out.append(Violation(f"def:{cls.__name__}.{d.attr_name}:attribute-defined-twice",
                                 f"second definition with code ({d.avp_code},{d.vendor_id}), first ({seen_attr[d.attr_name]})", case))
        seen_attr.setdefault(d.attr_name, k)
    return out


# ------------------------------------------------------------------ spec trees
# spec: dict attr_name -> ("s", value) | ("l", [value...]) | ("c", spec) | ("cl", [spec...])
class Builder:
    def __init__(self):
        Message, DefinedMessage, UndefinedMessage, A, G, AvpGenDef = lib()
        self.A = A
        self.fresh_cache = {}

    def fresh(self, cls):
        return cls()

    def is_list(self, cls, attr):
        k = (cls, attr)
        if k not in self.fresh_cache:
            inst = cls()
            try:
                v = getattr(inst, attr)
            except AttributeError:
                v = None
            self.fresh_cache[k] = isinstance(v, list)
        return self.fresh_cache[k]

    def default_of(self, cls, attr):
        inst = cls()
        try:
            return getattr(inst, attr)
        except AttributeError:
            return None

    def usable(self, d):
        e = self.A.get_avp_dictionary_entry(d.avp_code, d.vendor_id)
        if e is None:
            return None
        tn = c01.tname_of(e["type"])
        if (tn == "grouped") != (d.type_class is not None):
            return None
        return tn

    def spec_for(self, cls, d, depth, variant=0, nlist=2):
        """Value spec for one definition, or None if the definition is statically broken."""
        tn = self.usable(d)
        if tn is None:
            return None
        lst = self.is_list(cls, d.attr_name)
        if tn == "grouped":
            def sub(v):
                return self.full_spec(d.type_class, depth - 1, v)
            if lst:
                return ("cl", [sub(variant + i) for i in range(nlist)])
            return ("c", sub(variant))
        vals = VALUES[tn]
        if lst:
            return ("l", [vals[(variant + 2 * i) % 3] for i in range(nlist)])     # 3 elements: v, falsy, other
        return ("s", vals[variant % 3])

    def full_spec(self, cls, depth, variant=0):
        spec = {}
        seen = set()
        for i, d in enumerate(defs_of(cls)):
            if d.attr_name in seen:
                continue
            seen.add(d.attr_name)
            tn = self.usable(d)
            if tn is None:
                continue
            if tn == "grouped" and depth <= 0:
                continue
            s = self.spec_for(cls, d, depth, variant + i, 2)
            if s is not None:
                spec[d.attr_name] = s
        return spec

    # ---- library object from spec
    def build(self, cls, spec, extras=()):
        obj = cls()
        self.apply(obj, cls, spec)
        if "+extras" in spec:       # undeclared AVPs inside a grouped AVP (containers offering additional_avps)
            extras = tuple(extras) + tuple(spec["+extras"][1])
        for raw in extras:
            a = self.A.Avp.from_bytes(raw)
            if hasattr(obj, "append_avp"):
                obj.append_avp(a)
            else:
                obj.additional_avps.append(a)
        return obj

    def apply(self, obj, cls, spec):
        dmap = {}
        for d in defs_of(cls):
            dmap.setdefault(d.attr_name, d)
        for attr, (k, v) in spec.items():
            if attr == "+extras":
                continue
            d = dmap[attr]
            if k == "s" or k == "l":
                setattr(obj, attr, v if k == "s" else list(v))
            elif k == "c":
                setattr(obj, attr, self.build(d.type_class, v))
            else:
                setattr(obj, attr, [self.build(d.type_class, s) for s in v])

    # ---- reference bytes from spec
    def ref_avps(self, cls, spec, defaults=None):
        out = []
        done = set()
        for d in defs_of(cls):
            if d.attr_name in done:
                continue            # one AVP per attribute, however often the table names it
            done.add(d.attr_name)
            e = self.A.get_avp_dictionary_entry(d.avp_code, d.vendor_id)
            if d.attr_name not in spec:
                continue
            k, v = spec[d.attr_name]
            if e is None:
                continue
            mand = e.get("mandatory") if d.is_mandatory is None else d.is_mandatory
            fl = M if mand else 0
            tn = c01.tname_of(e["type"])
            if k == "s":
                out.append(rc.enc_avp(d.avp_code, self.enc(tn, v), fl, d.vendor_id))
            elif k == "l":
                for x in v:
                    out.append(rc.enc_avp(d.avp_code, self.enc(tn, x), fl, d.vendor_id))
            elif k == "c":
                out.append(rc.enc_avp(d.avp_code, b"".join(self.ref_avps(d.type_class, v)), fl, d.vendor_id))
            else:
                for s in v:
                    out.append(rc.enc_avp(d.avp_code, b"".join(self.ref_avps(d.type_class, s)), fl, d.vendor_id))
        if "+extras" in spec:
            out += list(spec["+extras"][1])
        return out

    def enc(self, tn, v):
        if tn == "addr" and isinstance(v, tuple):
            v = v[1]
        return rc.enc_value(tn, v)

    # ---- compare decoded object with spec
    def same(self, obj, cls, spec, path=""):
        dmap = {}
        for d in defs_of(cls):
            dmap.setdefault(d.attr_name, d)
        for attr, d in dmap.items():
            e = self.A.get_avp_dictionary_entry(d.avp_code, d.vendor_id)
            tn = c01.tname_of(e["type"]) if e else None
            try:
                got = getattr(obj, attr)
            except AttributeError:
                got = None
            if attr not in spec:
                if got not in (None, []) :
                    return f"{path}{attr}: unset attribute decoded as {got!r}"
                continue
            k, v = spec[attr]
            if k == "s":
                if not self.val_eq(tn, got, v):
                    return f"{path}{attr}: {got!r} != {v!r}"
            elif k == "l":
                if not isinstance(got, list) or len(got) != len(v) or not all(self.val_eq(tn, g, x) for g, x in zip(got, v)):
                    return f"{path}{attr}: {got!r} != {v!r}"
            elif k == "c":
                if got is None or isinstance(got, list):
                    return f"{path}{attr}: container missing ({got!r})"
                r = self.same(got, d.type_class, v, f"{path}{attr}.")
                if r:
                    return r
            else:
                if not isinstance(got, list) or len(got) != len(v):
                    return f"{path}{attr}: {len(got) if isinstance(got, list) else got!r} containers, want {len(v)}"
                for i, (g, s) in enumerate(zip(got, v)):
                    r = self.same(g, d.type_class, s, f"{path}{attr}[{i}].")
                    if r:
                        return r
        if path and hasattr(obj, "additional_avps"):
            # undeclared AVPs of a decoded grouped AVP: exactly the ones on the wire, in particular none left over from
            # another decoded instance of the same container class
            want = list(spec.get("+extras", ("x", []))[1])
            got = [a.as_bytes() for a in (obj.additional_avps or [])]
            if got != want:
                return f"{path}additional_avps: {len(got)} undeclared AVPs decoded ({[x.hex()[:24] for x in got]}), {len(want)} on the wire"
        return None

    def val_eq(self, tn, got, want):
        if tn == "addr":
            fam, ref = rc.dec_address(rc.enc_address(want))
            if not (isinstance(got, tuple) and got[0] == fam):
                return False
            return ipaddress.ip_address(got[1]) == ipaddress.ip_address(want) if fam in (1, 2) else got[1] == want
        if tn in ("f32", "f64"):
            return isinstance(got, float) and rc.enc_value(tn, got) == rc.enc_value(tn, want)
        return type(got) is type(want) and got == want


_DEPTH = {}


def container_depth(b, cls, path=()):
    """Longest chain of nested containers below cls (0 = no grouped attribute)."""
    if cls in _DEPTH:
        return _DEPTH[cls]
    if cls in path:
        return 0
    best = 0
    for d in defs_of(cls):
        if d.type_class is not None and b.usable(d) == "grouped":
            best = max(best, 1 + container_depth(b, d.type_class, path + (cls,)))
    _DEPTH[cls] = best
    return best


def deep_chain_spec(b, cls, seen=()):
    """One path along the deepest chain of nested containers, every scalar attribute set at its end (and one on the way down)."""
    best = None
    for d in defs_of(cls):
        if d.type_class is not None and b.usable(d) == "grouped" and d.type_class not in seen:
            k = container_depth(b, d.type_class)
            if best is None or k > best[0]:
                best = (k, d)
    if best is None:
        return b.full_spec(cls, 0, 1)
    k, d = best
    sub = deep_chain_spec(b, d.type_class, seen + (cls,))
    spec = {d.attr_name: ("cl", [sub]) if b.is_list(cls, d.attr_name) else ("c", sub)}
    for x in defs_of(cls):
        if x.type_class is None and b.usable(x) not in (None, "grouped") and x.attr_name not in spec and not b.is_list(cls, x.attr_name):
            spec[x.attr_name] = b.spec_for(cls, x, 0, 1, 1)
            break
    return spec


def default_spec(b, cls):
    """Attributes the class fills in by itself on creation (judged as set with that value)."""
    spec = {}
    inst = cls()
    seen = set()
    for d in defs_of(cls):
        if d.attr_name in seen:
            continue
        seen.add(d.attr_name)
        try:
            v = getattr(inst, d.attr_name)
        except AttributeError:
            continue
        if v is None or v == []:
            continue
        if d.type_class is not None:
            continue
        spec[d.attr_name] = ("l", list(v)) if isinstance(v, list) else ("s", v)
    return spec


def check_instance(b, cls, spec, extras, label, out, is_message):
    Message, DefinedMessage, UndefinedMessage, A, G, AvpGenDef = lib()
    case = {"class": cls.__name__, "label": label}
    full = dict(default_spec(b, cls))
    full.update(spec)
    try:
        obj = b.build(cls, spec, extras)
        want_body = b"".join(b.ref_avps(cls, full)) + b"".join(extras)
        if is_message:
            wire = obj.as_bytes()
            body = wire[20:]
        else:
            from diameter.message.avp.generator import generate_avps_from_defs
            avps = generate_avps_from_defs(obj)
            body = b"".join(a.as_bytes() for a in avps)
        if body != want_body:
            got = rc.dec_avps(body)
            ref = rc.dec_avps(want_body)
            gs = [(c, v, f) for c, f, v, p in got]
            rs = [(c, v, f) for c, f, v, p in ref]
            if gs != rs:
                miss = [x for x in rs if x not in gs]
                extra = [x for x in gs if x not in rs]
                what = "missing-or-extra-avps" if sorted(gs) != sorted(rs) else "order"
                out.append(Violation(f"encode:{cls.__name__}:{what}", f"{label}: missing {miss[:5]} unexpected {extra[:5]}", case))
            else:
                bad = [(c, v) for (c, f, v, p), (c2, f2, v2, p2) in zip(got, ref) if p != p2]
                out.append(Violation(f"encode:{cls.__name__}:payload-differs", f"{label}: AVPs {bad[:5]}", case))
            return
        if not is_message:
            return
        # typed decode restores the values; encode-decode-encode = encode
        dec = Message.from_bytes(wire)
        if type(dec) is not cls:
            out.append(Violation(f"decode:{cls.__name__}:other-class", f"{label}: {type(dec).__name__}", case))
            return
        r = b.same(dec, cls, full)
        if r:
            out.append(Violation(f"decode:{cls.__name__}:value-not-restored", f"{label}: {r}", case))
            return
        again = dec.as_bytes()
        if again != wire:
            out.append(Violation(f"reencode:{cls.__name__}:differs", f"{label}: {len(again)} vs {len(wire)} bytes", case))
    except Exception as e:
        out.append(Violation(f"roundtrip:{cls.__name__}:raises:{type(e).__name__}", f"{label}: {e}"[:400], case))


def work_class(args):
    idx, kind, tier = args
    msgs, conts = all_classes()
    cls = (msgs if kind == "msg" else conts)[idx]
    out = static_check(cls, kind)
    n = len(defs_of(cls))
    b = Builder()
    is_message = kind == "msg"
    defs = []
    seen = set()
    for d in defs_of(cls):
        if d.attr_name not in seen and b.usable(d) is not None:
            defs.append(d)
            seen.add(d.attr_name)
    if not is_message and "avp_def" not in {f for c in cls.__mro__ for f in vars(c)}:
        return n, out       # not an AVP container by the library's own definition (e.g. the GenericSpec mix-in)
    extra = [rc.enc_avp(9_000_077, b"extra!", 0x20, 0), rc.u32(9_000_078, 5, M, 4242)]
    has_extra = is_message or any(f.name == "additional_avps" for f in dataclasses.fields(cls))
    # undeclared AVPs that share a *code* with a declared attribute but not its vendor
    collide = []
    declared = {(d.avp_code, d.vendor_id) for d in defs_of(cls)}
    n_base = n_vend = 0
    for d in defs:
        if d.vendor_id == 0 and n_base < 2 and (d.avp_code, 4242) not in declared:
            collide.append(rc.enc_avp(d.avp_code, b"not-mine", 0, 4242))       # base attribute's code under a foreign vendor
            n_base += 1
        if d.vendor_id != 0 and n_vend < 2:
            for ov in (0, 4242):
                if (d.avp_code, ov) not in declared:
                    collide.append(rc.enc_avp(d.avp_code, b"not-mine", 0, ov))   # vendor attribute's code without / under another vendor
            n_vend += 1
    cases = [("none", {}, ())]
    depth1 = 2
    for i, d in enumerate(defs):
        for variant in (0, 1, 2):
            s = b.spec_for(cls, d, depth1, variant, 2)
            cases.append((f"single:{d.attr_name}:v{variant}", {d.attr_name: s}, ()))
        if b.is_list(cls, d.attr_name):
            for nl in (0, 1, 3):
                cases.append((f"list{nl}:{d.attr_name}", {d.attr_name: b.spec_for(cls, d, depth1, 0, nl)}, ()))
        if i > 0:
            cases.append((f"pair:{defs[0].attr_name}+{d.attr_name}",
                          {defs[0].attr_name: b.spec_for(cls, defs[0], 1, 0, 1), d.attr_name: b.spec_for(cls, d, 1, 1, 1)}, ()))
        if tier == "thorough" and len(defs) <= 80:
            for j in range(1, i):
                cases.append((f"pair:{defs[j].attr_name}+{d.attr_name}",
                              {defs[j].attr_name: b.spec_for(cls, defs[j], 1, 2, 2), d.attr_name: b.spec_for(cls, d, 1, 1, 3)}, ()))
    alls = b.full_spec(cls, 4 if tier == "thorough" else 3, 0)
    cases.append(("all", alls, ()))
    if has_extra:
        cases.append(("all+extras", alls, tuple(extra)))
        cases.append(("none+extras", {}, tuple(extra)))
        if collide:
            cases.append(("all+colliding-extras", alls, tuple(collide)))
            cases.append(("none+colliding-extras", {}, tuple(collide)))
    # undeclared AVPs inside grouped AVPs whose container offers additional_avps: three messages in a row with different extras
    # (a decoded container must carry exactly its own), then the same attribute without any
    if is_message:
        for d in defs:
            if d.type_class is None or not any(f.name == "additional_avps" for f in dataclasses.fields(d.type_class)):
                continue
            for rnd, ex in enumerate(([rc.enc_avp(9_000_081, b"one", 0x20, 0)], [rc.u32(9_000_082, 2, M, 4242), rc.enc_avp(9_000_083, b"", 0, 0)], [])):
                sp = b.spec_for(cls, d, 2, rnd, 2)
                if sp[0] == "c":
                    sub = dict(sp[1])
                    if ex:
                        sub["+extras"] = ("x", list(ex))
                    sp = ("c", sub)
                else:
                    subs = [dict(x) for x in sp[1]]
                    for k, sub in enumerate(subs):
                        if ex:
                            sub["+extras"] = ("x", list(ex[k:]) + [rc.u32(9_000_090 + k, k, 0, 0)])
                    sp = ("cl", subs)
                cases.append((f"nested-extras{rnd}:{d.attr_name}", {d.attr_name: sp}, ()))
    # the deepest chain of nested containers the class offers (up to 8 levels in the charging commands), one path, values at its end
    if is_message and container_depth(b, cls) >= 4:
        cases.append((f"deepest-container-chain:{container_depth(b, cls)}-levels", deep_chain_spec(b, cls), ()))
    if defs:
        for j in sorted({0, len(defs) // 2, len(defs) - 1}):
            s = dict(alls)
            s.pop(defs[j].attr_name, None)
            cases.append((f"all-but:{defs[j].attr_name}", s, ()))
    for label, spec, ex in cases:
        n += 1
        check_instance(b, cls, spec, ex, label, out, is_message)
    if is_message:
        n += check_mutation_after_encode(b, cls, defs, out)
    return n, out


def check_mutation_after_encode(b, cls, defs, out):
    """An instance is encoded, then changed *without assigning to the message itself* (append to a list attribute,
    set an attribute of a nested container), then encoded again: the bytes must follow the new state."""
    n = 0
    for d in defs:
        is_list = b.is_list(cls, d.attr_name)
        tn = b.usable(d)
        if not is_list and tn != "grouped":
            continue
        n += 1
        case = {"class": cls.__name__, "label": f"encode-mutate-encode:{d.attr_name}"}
        try:
            spec = {d.attr_name: b.spec_for(cls, d, 2, 0, 1)}
            obj = b.build(cls, spec)
            first = obj.as_bytes()
            full = dict(default_spec(b, cls))
            full.update(spec)
            if is_list:
                more = b.spec_for(cls, d, 2, 1, 2)
                extra_elems = more[1]
                target = getattr(obj, d.attr_name)
                if tn == "grouped":
                    target.extend(b.build(d.type_class, s2) for s2 in extra_elems)
                    full[d.attr_name] = ("cl", list(spec[d.attr_name][1]) + list(extra_elems))
                else:
                    target.extend(extra_elems)
                    full[d.attr_name] = ("l", list(spec[d.attr_name][1]) + list(extra_elems))
            else:
                sub = getattr(obj, d.attr_name)
                subdefs = [x for x in defs_of(d.type_class) if b.usable(x) not in (None, "grouped") and not b.is_list(d.type_class, x.attr_name)]
                if not subdefs:
                    continue
                x = subdefs[-1]
                newv = VALUES[b.usable(x)][1]
                setattr(sub, x.attr_name, newv)
                subspec = dict(spec[d.attr_name][1])
                subspec[x.attr_name] = ("s", newv)
                full[d.attr_name] = ("c", subspec)
            want = b"".join(b.ref_avps(cls, full))
            second = obj.as_bytes()[20:]
            if second != want:
                what = "unchanged-since-the-first-encode" if second == first[20:] else "differs"
                out.append(Violation(f"encode:{cls.__name__}:state-changed-after-first-encode-not-reflected:{what}",
                                     f"{case['label']}: second encode {len(second)} bytes, expected {len(want)}", case))
                return n
        except Exception as e:
            out.append(Violation(f"roundtrip:{cls.__name__}:raises:{type(e).__name__}", f"{case['label']}: {e}"[:300], case))
            return n
    return n


def work_untyped(args):
    lo, hi = args
    Message, DefinedMessage, UndefinedMessage, A, G, AvpGenDef = lib()
    out = []
    n = 0
    ents = c01.entries()[lo:hi]
    for code, vnd, e in ents:
        tn = c01.tname_of(e["type"])
        name = e["name"].replace("-", "_").lower()
        fl = M if e.get("mandatory") else 0
        if tn == "grouped":
            one = rc.grouped(code, [rc.u32(268, 2001), rc.u32(268, 2002), rc.utf8(263, "s")], fl, vnd)
            two = rc.grouped(code, [rc.octets(264, b"h")], fl, vnd)
        else:
            one = rc.enc_avp(code, rc.enc_value(tn, VALUES[tn][0]), fl, vnd)
            two = rc.enc_avp(code, rc.enc_value(tn, VALUES[tn][1]), fl, vnd)
        for cmd in (8_000_000, 283):
            falsy = None
            if tn not in ("grouped", "time", "addr"):
                falsy = rc.enc_avp(code, rc.enc_value(tn, VALUES[tn][2]), fl, vnd)
            variants = [(one, 1, [0]), (one + two, 2, [0, 1]), (one + rc.u32(9_000_001, 1) + two + one, 3, [0, 1, 0])]
            if falsy is not None:
                variants += [(falsy + two, 2, [2, 1]), (falsy + one + two, 3, [2, 0, 1]), (falsy, 1, [2])]
            for body, count, seq in variants:
                n += 1
                case = {"code": code, "vendor": vnd, "count": count, "cmd": cmd}
                try:
                    m = Message.from_bytes(rc.enc_msg(cmd, 0x80, 0, 1, 2, [body]))
                    if not hasattr(m, name):
                        out.append(Violation("untyped:attribute-missing", f"{case}: no attribute {name}", case))
                        continue
                    got = getattr(m, name)
                    if count == 1:
                        vals = [got]
                        if isinstance(got, list):
                            out.append(Violation("untyped:single-avp-exposed-as-list", f"{case}", case))
                            continue
                    else:
                        if not isinstance(got, list) or len(got) != count:
                            out.append(Violation("untyped:repeated-avp-not-a-list-in-wire-order", f"{case}: {got!r}"[:300], case))
                            continue
                        vals = got
                    for gv, which in zip(vals, seq):
                        if tn == "grouped":
                            if which == 0:
                                ok = getattr(gv, "result_code", None) == [2001, 2002] and getattr(gv, "session_id", None) == "s"
                            else:
                                ok = getattr(gv, "origin_host", None) == b"h"
                        else:
                            ok = Builder().val_eq(tn, gv, VALUES[tn][which])
                        if not ok:
                            out.append(Violation(f"untyped:value-wrong:{tn}", f"{case}: {gv!r}"[:300], case))
                            break
                except Exception as e:
                    out.append(Violation("untyped:raises", f"{case}: {type(e).__name__}: {e}", case))
    return n, out


def _call(job):
    f, a = job
    return f(a)


# ------------------------------------------------------------------ two threads use the typed codec at once


def race_messages():
    """Two small but structurally rich typed messages: lists, nested containers two levels deep, vendor AVPs."""
    from diameter.message.commands import CreditControlRequest, AccountingRequest
    from diameter.message.commands.credit_control import SubscriptionId, MultipleServicesCreditControl, RequestedServiceUnit, UsedServiceUnit
    from diameter.message.avp.grouped import VendorSpecificApplicationId
    a = CreditControlRequest()
    a.session_id = "race;a"
    a.origin_host = b"a.example.org"
    a.origin_realm = b"example.org"
    a.destination_realm = b"example.org"
    a.auth_application_id = 4
    a.service_context_id = "ctx@a"
    a.cc_request_type = 1
    a.cc_request_number = 7
    a.subscription_id = [SubscriptionId(subscription_id_type=0, subscription_id_data="491700000001"),
                         SubscriptionId(subscription_id_type=1, subscription_id_data="262011234567890")]
    a.multiple_services_credit_control = [MultipleServicesCreditControl(
        requested_service_unit=RequestedServiceUnit(cc_total_octets=1000), used_service_unit=[UsedServiceUnit(cc_total_octets=5)],
        service_identifier=[1, 2], rating_group=9)]
    b = AccountingRequest()
    b.session_id = "race;b"
    b.origin_host = b"b.example.org"
    b.origin_realm = b"example.org"
    b.destination_realm = b"example.org"
    b.accounting_record_type = 2
    b.accounting_record_number = 3
    b.acct_application_id = 3
    b.user_name = "bob"
    b.vendor_specific_application_id = VendorSpecificApplicationId(vendor_id=10415, acct_application_id=3)
    b.route_record = [b"hop1", b"hop2"]
    return a, b


def race_jobs(kind):
    """kind: 'enc-enc' | 'dec-dec' | 'enc-dec'."""
    from diameter.message import Message
    obj_a, obj_b = race_messages()

    def enc(obj):
        return obj.as_bytes()

    def dec(wire):
        m = Message.from_bytes(wire)
        return type(m).__name__.encode() + b":" + m.as_bytes()
    if kind == "enc-enc":
        return [("encode CCR", functools.partial(enc, obj_a)), ("encode ACR", functools.partial(enc, obj_b))]
    wire_a, wire_b = obj_a.as_bytes(), obj_b.as_bytes()
    if kind == "dec-dec":
        return [("decode CCR", functools.partial(dec, wire_a)), ("decode ACR", functools.partial(dec, wire_b))]
    return [("encode CCR", functools.partial(enc, race_messages()[0])), ("decode ACR", functools.partial(dec, wire_b))]


def run_races(rep, tier):
    from .. import codecrace
    execs = 0
    for kind in ("enc-enc", "dec-dec", "enc-dec"):
        r = codecrace.explore(functools.partial(race_jobs, kind), bound=1, time_cap=300 if tier != "thorough" else 900)
        execs += r["executions"]
        for (key, detail), choices in r["violations"]:
            rep.add(Violation(f"{key}:{kind}", f"[two threads, {kind}, 1 preemption at call granularity] choices {choices}: {detail}", {"race": kind, "choices": choices}))
        rep.sample({"two_threads": kind, "preemption_bound": 1, "executions": r["executions"], "distinct_outcomes": len(r["outcomes"]),
                    "branching_points": r["max_points"], "capped": r["capped"]})
    return execs


def run(tier):
    rep = Report("C03", tier, "exploration")
    common.pool()
    msgs, conts = all_classes()
    ndefs = sum(len(defs_of(c)) for c in msgs + conts)
    jobs = [(work_class, (i, "msg", tier)) for i in range(len(msgs))]
    jobs += [(work_class, (i, "cont", tier)) for i in range(len(conts))]
    nent = len(c01.entries())
    jobs += [(work_untyped, (lo, lo + 150)) for lo in range(0, nent, 150)]
    total = 0
    for n, vs in common.pmap(_call, jobs, chunksize=1):
        total += n
        rep.extend(vs)
    races = run_races(rep, tier)
    rep.cov["schedules"] = races
    rep.sample({"message_classes": len(msgs), "container_classes": len(conts), "definitions": ndefs})
    rep.sample({"example": "CreditControlRequest with all attributes set recursively (depth 3) -> bytes == refcodec encoding in avp_def order"})
    rep.cov.update({"evaluations": total, "distinct_nontrivial": total, "programs": len(msgs) + len(conts), "definitions": ndefs,
                    "exhaustive": True,
                    "rule": "every DefinedMessage subclass with an avp_def and every grouped container (reachable from grouped.__all__ and "
                            "type_class links): static obligations for every AvpGenDef; dynamic: none, each single attribute x 2 values, "
                            "lists of 0/1/3, each pair with the first attribute, all (recursively, depth 3 quick / 4 thorough), all+extras, "
                            "all-but-{first,middle,last}; untyped: every dictionary entry once, twice and three times in unknown and untyped commands"})
    return rep.finish()


def replay(case):
    if "race" in case:
        from .. import codecrace, scheddfs
        jobs = functools.partial(race_jobs, case["race"])
        names = [n for n, _ in jobs()]
        obs, ch = scheddfs.replay_choices(functools.partial(codecrace._exec, jobs), case["choices"])
        return [Violation(f"{k}:{case['race']}", d) for k, d in codecrace._check(names, codecrace.sequential_results(jobs), obs)]
    msgs, conts = all_classes()
    out = []
    for kind, lst in (("msg", msgs), ("cont", conts)):
        for i, c in enumerate(lst):
            if c.__name__ == case.get("class"):
                out += work_class((i, kind, "thorough"))[1]
    if "count" in case:
        ents = c01.entries()
        for i, (code, vnd, e) in enumerate(ents):
            if code == case["code"] and vnd == case["vendor"]:
                out += work_untyped((i, i + 1))[1]
    return out
