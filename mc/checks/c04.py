"""C04 - decoding hostile bytes terminates, stays inside the buffer, raises only decode errors.

E1/E5: every prefix, every single-bit flip, every pair of flips inside headers, every length
field replaced by boundary values, for one populated message per typed command and the
base-protocol messages; every AVP type x payload length 0..20 x hostile content; all byte
strings of length <= 2; short tails over a 3-symbol alphabet; nesting chains to depth 16.
"""
from __future__ import annotations

import itertools

from .. import common, refcodec as rc
from ..common import Report, Violation
from . import c01, c03

M = rc.FLAG_M
LENS = lambda real: [0, 1, 7, 8, 11, 12, max(0, real - 1), real + 1, (1 << 24) - 1]  # noqa: E731


class Counter:
    reads = 0
    jumps = 0
    limit = 1 << 60
    jlimit = 1 << 60


class DecodeBudget(BaseException):
    """Raised from inside the decoder when the linear work budget is exhausted (it would never return)."""


def _on_jump(code, src, dst):
    if dst < src:
        Counter.jumps += 1
        if Counter.jumps > Counter.jlimit:
            Counter.jumps = 0
            raise DecodeBudget(f"loop budget exhausted in {code.co_qualname}")


def arm(n):
    Counter.reads = 0
    Counter.jumps = 0
    Counter.limit = 12 * (n + 8) + 64
    Counter.jlimit = 200 * (n + 8) + 100_000      # + class-size dependent work of typed decodes (O(defs^2))


def instrument():
    """Wrap the primitive reads of Unpacker once per process (count + bounds observation)."""
    from diameter.message import packer
    U = packer.Unpacker
    if getattr(U, "_verif_wrapped", False):
        return
    for name in ("unpack_uint", "unpack_int", "unpack_fstring", "unpack_float", "unpack_double", "unpack_char"):
        if not hasattr(U, name):
            raise RuntimeError(f"Unpacker.{name} no longer exists")
        orig = getattr(U, name)

        def make(orig):
            def w(self, *a, **k):
                Counter.reads += 1
                if Counter.reads > Counter.limit:
                    Counter.reads = 0
                    raise DecodeBudget("primitive-read budget exhausted")
                return orig(self, *a, **k)
            return w
        setattr(U, name, make(orig))
    U.unpack_fopaque = U.unpack_fstring
    U.unpack_enum = U.unpack_int
    U._verif_wrapped = True
    # loop back-edges anywhere in the codec count against a budget too (loops that read nothing)
    import sys
    from .. import simkernel as sk
    import diameter.message._base as mb
    import diameter.message.avp.avp as ma
    import diameter.message.avp.generator as mg
    import diameter.message.commands._attributes as mattr
    mon = sys.monitoring
    mon.use_tool_id(3, "verif-c04")
    mon.register_callback(3, mon.events.JUMP, _on_jump)
    for m in (packer, mb, ma, mg, mattr):
        for co in sk._all_code_objects(m):
            mon.set_local_events(3, co, mon.events.JUMP)


def allowed():
    from diameter.message import packer
    from diameter.message.avp import AvpDecodeError
    return (packer.Error, AvpDecodeError)


def lenient_member_count(buf):
    """Number of member AVPs of a grouped payload, or None if it is malformed: a member header that does not fit or
    data overrunning the payload.  A length field *below* the header size is read as "no data" - the library is lenient
    there and the property does not decide that case."""
    pos = 0
    n = 0
    while pos < len(buf):
        if pos + 8 > len(buf):
            return None
        flags = buf[pos + 4]
        length = int.from_bytes(buf[pos + 5:pos + 8], "big")
        hdr = 12 if flags & 0x80 else 8
        if pos + hdr > len(buf):
            return None
        dlen = max(0, length - hdr)
        end = pos + hdr + dlen + rc.pad4(dlen)
        if end > len(buf):
            return None
        pos = end
        n += 1
    return n


def walk_values(avps, out, ctx, depth=0):
    """.value of every decoded AVP returns or raises AvpDecodeError; str() never raises."""
    from diameter.message.avp import AvpDecodeError, AvpGrouped
    for a in avps:
        Counter.reads += 1
        try:
            s = str(a)
        except Exception as e:
            out.append((f"str(avp)-raises:{type(a).__name__}:{type(e).__name__}", f"{ctx}: code {a.code} payload {bytes(a.payload or b"").hex()[:40]}: {e}"))
        try:
            v = a.value
        except AvpDecodeError:
            continue
        except Exception as e:
            out.append((f"avp.value-raises:{type(a).__name__}:{type(e).__name__}", f"{ctx}: code {a.code} payload {bytes(a.payload or b"").hex()[:40]}: {e}"))
            continue
        if isinstance(a, AvpGrouped):
            # the reference codec decides whether the grouped payload is well-formed; every read must agree with it
            n_ref = lenient_member_count(bytes(a.payload or b""))
            for attempt in ("first", "second"):
                if attempt == "second":
                    try:
                        v = a.value
                    except AvpDecodeError:
                        v = None
                    except Exception as e:
                        out.append((f"avp.value-raises:AvpGrouped:{type(e).__name__}:on-second-read", f"{ctx}: code {a.code}"))
                        break
                if n_ref is None and v is not None:
                    out.append((f"avp.value-returns-for-malformed-grouped-payload:on-{attempt}-read",
                                f"{ctx}: code {a.code} payload {bytes(a.payload or b"").hex()[:60]}: returned {len(v)} members"))
                    break
                if n_ref is not None and (v is None or len(v) != n_ref):
                    out.append((f"avp.value-wrong-for-well-formed-grouped-payload:on-{attempt}-read",
                                f"{ctx}: code {a.code}: {None if v is None else len(v)} members, wire has {n_ref}"))
                    break
            if v is not None and depth < 20:
                walk_values(v, out, ctx, depth + 1)


def nesting_depth(buf, limit=40):
    """Cheap upper bound on group nesting used in the linear-time budget."""
    return 17


def decode_message(buf, ctx, out, plain=False):
    try:
        return _decode_message(buf, ctx, out, plain)
    except DecodeBudget as e:
        out.append(("decoding-does-not-terminate-in-linear-time", f"{ctx}: {e} ({len(buf)} bytes)"))
        return None
    finally:
        Counter.limit = Counter.jlimit = 1 << 60


def _decode_message(buf, ctx, out, plain=False):
    from diameter.message import Message
    ok = allowed()
    arm(len(buf))
    try:
        m = Message.from_bytes(buf, plain_msg=plain)
    except ok:
        m = None
    except DecodeBudget as e:
        out.append(("decoding-does-not-terminate-in-linear-time", f"{ctx}: {e} ({len(buf)} bytes)"))
        return None
    except RecursionError as e:
        out.append(("message-decode-raises:RecursionError", f"{ctx}"))
        m = None
    except Exception as e:
        out.append((f"message-decode-raises:{type(e).__name__}", f"{ctx}: {e}"[:300]))
        m = None
    if m is not None:
        try:
            str(m.header)
            str(m)
        except Exception as e:
            out.append((f"str(message)-raises:{type(e).__name__}", f"{ctx}: {e}"))
        try:
            avps = m.avps
        except ok:
            avps = []
        except Exception as e:
            out.append((f"message.avps-raises:{type(e).__name__}", f"{ctx}: {e}"[:300]))
            avps = []
        try:
            walk_values(avps, out, ctx)
        except DecodeBudget as e:
            out.append(("decoding-does-not-terminate-in-linear-time", f"{ctx}: value access: {e} ({len(buf)} bytes)"))
    Counter.limit = Counter.jlimit = 1 << 60
    return m


def decode_avp(buf, ctx, out):
    from diameter.message.avp import Avp, AvpDecodeError
    from diameter.message.packer import Unpacker
    arm(len(buf))
    try:
        a = Avp.from_bytes(buf)
    except allowed():
        a = None
    except DecodeBudget as e:
        out.append(("decoding-does-not-terminate-in-linear-time", f"{ctx}: {e} ({len(buf)} bytes)"))
        Counter.limit = Counter.jlimit = 1 << 60
        return None
    except Exception as e:
        out.append((f"avp-decode-raises:{type(e).__name__}", f"{ctx}: {e}"[:300]))
        a = None
    try:
        if a is not None:
            walk_values([a], out, ctx)
        # position never beyond the buffer (and never before its start) after a successful AVP
        u = Unpacker(buf)
        try:
            Avp.from_unpacker(u)
            if not 8 <= u.get_position() <= len(buf):
                out.append(("unpacker-position-outside-buffer", f"{ctx}: position {u.get_position()}, buffer {len(buf)}"))
        except allowed():
            pass
        except Exception as e:
            out.append((f"avp-from_unpacker-raises:{type(e).__name__}", f"{ctx}: {e}"[:300]))
    except DecodeBudget as e:
        out.append(("decoding-does-not-terminate-in-linear-time", f"{ctx}: {e} ({len(buf)} bytes)"))
    Counter.limit = Counter.jlimit = 1 << 60
    return a


# ------------------------------------------------------------------ seeds
def seeds(tier):
    """(label, wire bytes) - one populated message per typed command + base-protocol messages."""
    msgs, conts = c03.all_classes()
    b = c03.Builder()
    out = []
    for cls in msgs:
        spec = b.full_spec(cls, 1, 0)
        try:
            out.append((cls.__name__, b.build(cls, spec).as_bytes()))
        except Exception:
            continue
    out.append(("untyped-283", rc.enc_msg(283, 0x80, 0, 1, 2, [rc.utf8(263, "s;1"), rc.addr(257, "10.0.0.1"),
                                                            rc.grouped(456, [rc.grouped(437, [rc.u32(420, 1)])]),
                                                            rc.enc_avp(55, rc.enc_time(c03.VALUES["time"][0]), M)])))
    return out


def avp_spans(buf, base=20, depth=0, maxdepth=16):
    """Offsets of (avp start, header length, total length, depth) for the reference-decodable tree."""
    spans = []
    pos = base
    end = len(buf)
    try:
        while pos < end:
            code, fl, vnd, payload, nxt = rc.dec_avp_at(buf[:end], pos)
            hdr = 12 if vnd else 8
            spans.append((pos, hdr, hdr + len(payload), depth))
            pos = nxt
    except rc.RefError:
        pass
    return spans


def nested_spans(buf):
    A, D = c01.lib()
    out = []

    def rec(start, end, depth):
        pos = start
        while pos < end:
            try:
                code, fl, vnd, payload, nxt = rc.dec_avp_at(buf[:end], pos)
            except rc.RefError:
                return
            hdr = 12 if vnd else 8
            out.append((pos, hdr, hdr + len(payload), depth))
            e = A.get_avp_dictionary_entry(code, vnd)
            if e is not None and e["type"].__name__ == "AvpGrouped" and depth < 16:
                rec(pos + hdr, pos + hdr + len(payload), depth + 1)
            pos = nxt
    rec(20, len(buf), 0)
    return out


def work_seed(args):
    idx, tier = args
    instrument()
    label, wire = seeds(tier)[idx]
    out = []
    n = 0
    small = len(wire) <= (1500 if tier == "thorough" else 700)
    # sanity: the pristine seed decodes
    decode_message(wire, f"{label}:pristine", out)
    # every prefix
    step = 1 if small else 7
    for k in list(range(0, min(len(wire), 64))) + list(range(64, len(wire), step)):
        n += 1
        decode_message(wire[:k], f"{label}:prefix{k}", out)
    spans = nested_spans(wire)
    # every single-bit flip (all bytes for small seeds; header and AVP headers otherwise)
    if small:
        positions = range(len(wire))
    else:
        ps = set(range(20))
        for s, h, t, d in spans:
            ps.update(range(s, s + h))
        positions = sorted(ps)
    for p in positions:
        for bit in range(8):
            n += 1
            b = bytearray(wire)
            b[p] ^= 1 << bit
            decode_message(bytes(b), f"{label}:flip{p}.{bit}", out)
    # every pair of flips within the message header and within each AVP header (first 6 AVPs quick)
    regions = [(0, 20)] + [(s, h) for s, h, t, d in spans[: (10 if tier == "thorough" else 4)]]
    for s, h in regions:
        bits = [(p, bit) for p in range(s, s + h) for bit in range(8)]
        for (p1, b1), (p2, b2) in itertools.combinations(bits, 2):
            if (p1 * 8 + b1 + p2 * 8 + b2) % (2 if tier == "thorough" else 5):
                continue
            n += 1
            b = bytearray(wire)
            b[p1] ^= 1 << b1
            b[p2] ^= 1 << b2
            decode_message(bytes(b), f"{label}:flip{p1}.{b1}+{p2}.{b2}", out)
    # every length field replaced by boundary values
    for v in LENS(len(wire)):
        n += 1
        b = bytearray(wire)
        b[1:4] = v.to_bytes(3, "big")
        decode_message(bytes(b), f"{label}:msglen={v}", out)
    for s, h, t, d in spans:
        for v in LENS(t):
            n += 1
            b = bytearray(wire)
            b[s + 5:s + 8] = v.to_bytes(3, "big")
            decode_message(bytes(b), f"{label}:avplen@{s}(d{d})={v}", out)
            n += 1
            decode_message(bytes(b), f"{label}:avplen@{s}(d{d})={v}:plain", out, plain=True)
    vs = {}
    for key, detail in out:
        vs.setdefault(key, [detail, 0])
        vs[key][1] += 1
    return n, [(k, d, c) for k, (d, c) in vs.items()]


def work_types(args):
    """Every AVP type x payload length 0..20 x hostile content, bare and inside typed/untyped messages."""
    tn, = args
    instrument()
    A, D = c01.lib()
    out = []
    n = 0
    reps = {}
    for code, vnd, e in c01.entries():
        t = c01.tname_of(e["type"])
        reps.setdefault(t, (code, vnd))
    code, vnd = reps[tn]
    fills = [lambda L: bytes(L), lambda L: b"\xff" * L, lambda L: bytes((0xc3, 0x28) * L)[:L], lambda L: (b"\x00\x01" + b"\xfe" * L)[:L],
             lambda L: (b"\x00\x02" + b"\x01" * L)[:L], lambda L: (b"\x00\x08" + b"\xff\xfe" * L)[:L], lambda L: (b"\x00\x63" + b"\x07" * L)[:L],
             lambda L: (b"\x00\x00\x00\x08" * L)[:L], lambda L: (b"\x80" + b"\x00" * L)[:L]]
    for L in range(0, 21):
        for fi, f in enumerate(fills):
            payload = f(L)
            for fl in (0, M):
                n += 1
                w = rc.enc_avp(code, payload, fl, vnd)
                ctx = f"type={tn} len={L} fill={fi}"
                decode_avp(w, ctx, out)
                # also carried in a typed CER (host_ip_address etc. are typed attributes) and in an untyped command
                for cmd in (257, 283, 8_000_000):
                    n += 1
                    decode_message(rc.enc_msg(cmd, 0x80, 0, 1, 2, [rc.octets(264, b"h"), w, rc.u32(268, 1)]), ctx + f" in cmd {cmd}", out)
    if tn == "addr":
        # wrong-size addresses in every typed attribute position that holds an Address (CER Host-IP-Address)
        for L in range(0, 21):
            for fam in (1, 2, 8, 0, 3, 65535):
                n += 1
                payload = fam.to_bytes(2, "big") + bytes((0xff, 0x80, 0x41)[i % 3] for i in range(L))
                decode_message(rc.enc_msg(257, 0x80, 0, 1, 2, [rc.octets(264, b"h"), rc.enc_avp(257, payload, M)]), f"CER host-ip fam={fam} len={L}", out)
                a = decode_avp(rc.enc_avp(257, payload, M), f"addr fam={fam} len={L}", out)
                # an IPv4 / IPv6 address of the wrong size is malformed for its type: reading it raises the AVP decode error
                if a is not None and fam in (1, 2) and L != {1: 4, 2: 16}[fam]:
                    from diameter.message.avp import AvpDecodeError
                    try:
                        v = a.value
                        out.append((f"avp.value-returns-for-wrong-size-address:family{fam}", f"family {fam} with {L} address octets: .value returned {v!r}"))
                    except AvpDecodeError:
                        pass
                    except Exception as e:
                        out.append((f"avp.value-raises:AvpAddress:{type(e).__name__}", f"family {fam} with {L} octets: {e}"))
    vs = {}
    for key, detail in out:
        vs.setdefault(key, [detail, 0])
        vs[key][1] += 1
    return n, [(k, d, c) for k, (d, c) in vs.items()]


def work_raw(args):
    part, = args
    instrument()
    out = []
    n = 0
    if part == "len<=2":
        cands = [b""] + [bytes([a]) for a in range(256)] + [bytes([a, b]) for a in range(256) for b in range(256)]
        for c in cands:
            n += 2
            decode_message(c, f"raw {c.hex()}", out)
            decode_avp(c, f"raw {c.hex()}", out)
    elif part == "tails":
        hdr = rc.enc_header(1, 20, 0x80, 8_000_000, 0, 1, 2)
        for k in range(0, 9):
            for tail in itertools.product(b"\x00\x01\xff", repeat=k):
                t = bytes(tail)
                n += 2
                h = bytearray(hdr)
                h[1:4] = (20 + len(t)).to_bytes(3, "big")
                decode_message(bytes(h) + t, f"tail {t.hex()}", out)
                decode_avp(t + b"\x00" * 4, f"avp-head {t.hex()}", out)
    else:
        # nesting chains to depth 16, well-formed and with a corrupt innermost length
        for depth in range(1, 17):
            for inner in (rc.u32(268, 1), rc.u32(268, 1)[:-1], b"\x00\x00\x01\x0c\x40\xff\xff\xff\x00", b""):
                t = inner
                for d in range(depth):
                    t = rc.enc_avp(456, t, M, 0)
                n += 2
                decode_avp(t, f"chain depth {depth} inner {inner.hex()}", out)
                decode_message(rc.enc_msg(272, 0x80, 4, 1, 2, [t]), f"chain depth {depth} inner {inner.hex()} in CCR", out)
    vs = {}
    for key, detail in out:
        vs.setdefault(key, [detail, 0])
        vs[key][1] += 1
    return n, [(k, d, c) for k, (d, c) in vs.items()]


def _call(job):
    f, a = job
    return f(a)


def run(tier):
    rep = Report("C04", tier, "exploration")
    common.pool()
    sd = seeds(tier)
    jobs = [(work_seed, (i, tier)) for i in range(len(sd))]
    # biggest seeds first
    jobs.sort(key=lambda j: -len(sd[j[1][0]][1]))
    jobs += [(work_types, (tn,)) for tn in ("octets", "utf8", "i32", "i64", "u32", "u64", "f32", "f64", "time", "addr", "grouped")]
    jobs += [(work_raw, (p,)) for p in ("len<=2", "tails", "chains")]
    total = 0
    for n, vs in common.pmap(_call, jobs, chunksize=1):
        total += n
        for key, detail, cnt in vs:
            rep.add(Violation(key, detail, {"detail": detail}))
            rep.violation_counts[key] += cnt - 1
    rep.sample({"seeds": len(sd), "seed_sizes": sorted(len(w) for _, w in sd)[-5:], "largest": max(sd, key=lambda s: len(s[1]))[0]})
    rep.sample({"example": "CapabilitiesExchangeRequest:avplen@40(d0)=16777215 -> must raise packer.Error/AvpDecodeError or return"})
    rep.cov.update({"evaluations": total, "distinct_nontrivial": total, "exhaustive": True,
                    "rule": "per seed (one populated message per typed command, depth-1 containers, + an untyped one): every prefix, every "
                            "single-bit flip (all bytes of seeds <= 700 B quick / 1500 B thorough, else all header bytes), pairs of flips in the "
                            "message header and the first AVP headers (every fifth pair of the first 4 AVP headers quick, every second pair of the first 10 thorough), every message/AVP/nested-AVP length "
                            "field x 9 boundary values, typed and plain decode; every AVP type x payload length 0..20 x 9 fills bare and inside "
                            "typed/untyped/unknown commands; all byte strings of length <= 2; 3-symbol tails of length <= 8; chains to depth 16; "
                            "oracle: only packer.Error/AvpDecodeError escape, .value raises only AvpDecodeError, str() never raises, primitive "
                            "reads <= 160*(len+8), position <= len"})
    return rep.finish()


def replay(case):
    # violations carry the mutation label in their detail; re-run everything cheap that can reproduce it
    out = []
    for tn in ("addr", "time", "utf8", "grouped"):
        n, vs = work_types((tn,))
        out += [Violation(k, d, {"detail": d}) for k, d, c in vs]
    return out
