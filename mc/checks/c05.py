"""C05 - stream framing: chunking-invariant, ordered, exactly-once, always progresses.

E5 over a bare PeerConnection running under the kernel: every stream over a frame
alphabet (bounded length) x every cut pattern of the stated classes.  The reader thread
is the real `work_read_queue`; the environment feeds `add_in_bytes` exactly as the node's
I/O thread does.
"""
from __future__ import annotations

import functools
import itertools

from .. import common, refcodec as rc, simkernel as sk
from ..common import Report, Violation

R = 0x80


def _frame(kind, hbh):
    oh = rc.octets(264, b"peer1.example.org")
    orr = rc.octets(296, b"example.org")
    if kind == "dwr":
        return rc.enc_msg(280, R, 0, hbh, hbh + 7, [oh, orr])
    if kind == "hdr":
        return rc.enc_msg(9999, R, 0, hbh, hbh + 7, [])
    if kind == "resv":      # well-formed frame with reserved flag bits set, version 3
        return rc.enc_msg(280, R | 0x0f, 0, hbh, hbh + 7, [oh, orr], version=3)
    if kind == "resv2":     # answer with E and T and one reserved bit
        return rc.enc_msg(8_000_000, 0x38, 7, hbh, hbh + 7, [oh])
    if kind == "cer":
        return rc.enc_msg(257, R, 0, hbh, hbh + 7, [oh, orr, rc.addr(257, "10.0.0.2"), rc.u32(266, 1),
                                                    rc.utf8(269, "x", 0), rc.u32(259, 3)])
    if kind in ("big", "big8k"):
        n = 3001 if kind == "big" else 8000
        return rc.enc_msg(271, R | 0x40, 3, hbh, hbh + 7,
                          [rc.utf8(263, "s;1"), oh, orr, rc.octets(283, b"example.org"), rc.u32(480, 1),
                           rc.u32(485, 1), rc.octets(25, bytes((i * 7 + 1) & 0xff for i in range(n)))])
    if kind == "undec":
        # correct frame length, but the second AVP claims more data than the frame holds
        body = oh + (296).to_bytes(4, "big") + bytes([0x40]) + (4000).to_bytes(3, "big") + b"abcdefgh"
        return rc.enc_header(1, 20 + len(body), R, 280, 0, hbh, hbh + 7) + body
    if kind == "undec2":
        # AVP header cut short by the frame end (7 trailing bytes)
        body = oh + b"\x00\x00\x01\x28\x40\x00\x00"
        return rc.enc_header(1, 20 + len(body), R, 280, 0, hbh, hbh + 7) + body
    if kind in MAYBE:
        # correct frame length; the second AVP's own length field is 0 / 3 / 7 (less than an AVP header).  Whether such a frame counts
        # as decodable is the decoder's business (C04); the reader must neither spin on it nor lose the frames around it
        body = oh + (296).to_bytes(4, "big") + bytes([0x40]) + int(kind[3:]).to_bytes(3, "big") + b"example.org\x00"
        return rc.enc_header(1, 20 + len(body), R, 280, 0, hbh, hbh + 7) + body
    if kind.startswith("len"):
        good = bytearray(_frame("dwr", hbh))
        good[1:4] = int(kind[3:]).to_bytes(3, "big")
        return bytes(good)
    if kind == "short4":
        good = bytearray(_frame("dwr", hbh))
        good[1:4] = (len(good) - 4).to_bytes(3, "big")
        return bytes(good)
    if kind == "long4":
        good = bytearray(_frame("dwr", hbh))
        good[1:4] = (len(good) + 4).to_bytes(3, "big")
        return bytes(good)
    raise ValueError(kind)


WELL = ("dwr", "hdr", "cer", "undec", "big", "resv", "resv2")
UNDEC = ("undec", "undec2")
MAYBE = ("avp0", "avp3", "avp7")
MAL = tuple(f"len{i}" for i in range(20)) + ("short4", "long4")


def build_stream(kinds):
    frames = [_frame(k, 0x1000 + 16 * i) for i, k in enumerate(kinds)]
    expected = [(rc.Hdr(f).code, rc.Hdr(f).hbh, rc.Hdr(f).e2e, len(f))
                for k, f in zip(kinds, frames) if k not in UNDEC and k not in MAL]
    return frames, expected


def execute(stream, chunks, mode="drain"):
    """Feed chunks to a fresh PeerConnection; returns the observation tuple."""
    sk.install()
    import diameter.node.peer as P
    w = sk.World()
    w.jump_limit = 3000
    try:
        r, wr = sk.OsShim().pipe()
        c = P.PeerConnection("10.0.0.2", 3868, P.PEER_RECV, wr)
        c.state = P.PEER_READY
        got = []
        c.message_handler = lambda conn, m: got.append(
            (m.header.command_code, m.header.hop_by_hop_identifier, m.header.end_to_end_identifier, m.header.length))
        w.run()
        for ch in chunks:
            c.add_in_bytes(ch)
            if mode in ("drain", "pause"):
                w.run()
            if mode == "pause":
                w.advance(6)        # the sender pauses: the reader's poll of its input queue (5 s) expires with the bytes so far
        w.run()
        readers = [t for t in w.threads if t.kind == "work_read_queue"]
        if len(readers) != 1:
            raise sk.HarnessError("expected exactly one work_read_queue thread")
        rt = readers[0]
        if rt.spun:
            status = "spin"
        elif rt.done and rt.exc is not None:
            status = "dead:" + type(rt.exc).__name__
        elif rt.done:
            status = "exited"
        else:
            status = "waiting"
        closed = c.state == P.PEER_CLOSED
        return tuple(got), status, closed
    finally:
        w.shutdown()


def judge(kinds, expected, obs, cutdesc):
    got, status, closed = obs
    wellformed = not any(k in MAL for k in kinds)
    case = {"kinds": list(kinds), "cuts": cutdesc}
    vs = []
    if status == "spin":
        trig = "+".join(sorted({k for k in kinds if k in MAL})) or "wellformed"
        vs.append(Violation(f"framing:reader-spins-without-consuming:{trig}",
                            f"stream {kinds} cuts {cutdesc}: reader looped without a scheduling point", case))
        return vs
    if status.startswith("dead") or (status == "exited" and not closed):
        vs.append(Violation(f"framing:reader-stopped-silently:{status}",
                            f"stream {kinds} cuts {cutdesc}: reader {status}, connection closed={closed}", case))
        return vs
    if wellformed and any(k in MAYBE for k in kinds):
        # frames that may or may not be delivered: everything else exactly once and in order, nothing unknown, no duplicates
        opt = {(rc.Hdr(f).code, rc.Hdr(f).hbh, rc.Hdr(f).e2e, len(f)) for k, f in zip(kinds, build_stream(kinds)[0]) if k in MAYBE}
        must = [e for e in expected if e not in opt]
        ok = [g for g in got if g not in opt] == must and len(set(got)) == len(got) and [e for e in expected if e in got] == list(got)
        if not ok:
            vs.append(Violation(f"framing:wellformed-stream:with-short-avp-length-frame:{'closed' if closed else 'wrong-delivery'}",
                                f"stream {kinds} cuts {cutdesc}: delivered {got}, expected {must} (+ optionally {sorted(opt)}), closed={closed}", case))
        elif closed or status != "waiting":
            vs.append(Violation("framing:wellformed-stream:connection-not-kept-open",
                                f"stream {kinds} cuts {cutdesc}: status={status} closed={closed}", case))
    elif wellformed:
        if list(got) != expected:
            has_undec = any(k in UNDEC for k in kinds)
            sig = "with-undecodable-frame" if has_undec else "decodable-only"
            what = "closed" if closed else "wrong-delivery"
            vs.append(Violation(f"framing:wellformed-stream:{sig}:{what}",
                                f"stream {kinds} cuts {cutdesc}: delivered {got}, expected {expected}, closed={closed}", case))
        elif closed or status != "waiting":
            vs.append(Violation("framing:wellformed-stream:connection-not-kept-open",
                                f"stream {kinds} cuts {cutdesc}: status={status} closed={closed}", case))
    else:
        # frames before the first malformed-length frame must still be delivered, once, in order
        k0 = next(i for i, k in enumerate(kinds) if k in MAL)
        pre = [e for e in expected if e[1] < 0x1000 + 16 * k0]
        if list(got[:len(pre)]) != pre:
            vs.append(Violation("framing:frames-before-malformed-length-frame-lost",
                                f"stream {kinds} cuts {cutdesc}: delivered {got}, expected prefix {pre}", case))
        if len(set(got)) != len(got):
            vs.append(Violation("framing:duplicate-delivery", f"stream {kinds} cuts {cutdesc}: {got}", case))
    return vs


def cut_patterns(frames, tier, streamlen_class):
    """Yields (description, chunks) for a stream given as list of frame byte strings."""
    data = b"".join(frames)
    n = len(data)
    bounds = list(itertools.accumulate(len(f) for f in frames))
    starts = [0] + bounds[:-1]
    yield ("whole",), [data]
    if n <= 320:
        ones = range(1, n)
    else:
        near = set()
        for b in starts + bounds:
            near.update(range(max(1, b - 24), min(n, b + 25)))
        near.update(range(1, n, 61))
        ones = sorted(near)
    for i in ones:
        yield ("1cut", i), [data[:i], data[i:]]
    if n <= (320 if tier == "thorough" else 120):
        for i in range(1, n):
            for j in range(i + 1, n):
                yield ("2cut", i, j), [data[:i], data[i:j], data[j:]]
    else:
        pts = set()
        for s, b in zip(starts, bounds):
            for d in (-1, 0, 1):
                for p in (s + d, s + 20 + d, s + 4 + d, b + d):
                    if 0 < p < n:
                        pts.add(p)
        pts = sorted(pts)
        for i, j in itertools.combinations(pts, 2):
            yield ("2cut", i, j), [data[:i], data[i:j], data[j:]]
    sizes = [2, 3, 7, 19, 20, 21, 64, 2048]
    if n <= 400:
        sizes = [1] + sizes
    for k in sizes:
        if k < n:
            yield ("every", k), [data[p:p + k] for p in range(0, n, k)]


def work(args):
    kinds, tier = args
    frames, expected = build_stream(kinds)
    n = 0
    vs = {}
    outcomes = set()
    for desc, chunks in cut_patterns(frames, tier, None):
        modes = ("drain", "queued") if desc[0] in ("whole", "every") or (desc[0] == "1cut" and len(b"".join(frames)) <= 200) else ("drain",)
        if desc[0] == "1cut" or (desc[0] == "every" and desc[1] >= 64):
            modes += ("pause",)
        for mode in modes:
            obs = execute(kinds, chunks, mode)
            n += 1
            outcomes.add(obs)
            for v in judge(kinds, expected, obs, list(desc) + [mode]):
                if v.key not in vs:
                    vs[v.key] = [v, 0]
                vs[v.key][1] += 1
    return kinds, n, len(outcomes), [(v.key, v.detail, v.case, c) for v, c in vs.values()]


def streams(tier):
    maxlen = 3 if tier == "thorough" else 2
    out = []
    well = WELL + (("undec2",) if True else ())
    for L in range(1, maxlen + 1):
        base = well if L <= 2 else ("dwr", "hdr", "undec", "undec2")
        for seq in itertools.product(base, repeat=L):
            if sum(1 for k in seq if k in ("big",)) > 1:
                continue
            out.append(seq)
    # one malformed-length frame at every position of streams of decodable frames
    wf_small = ("dwr", "hdr", "undec")
    for L in range(0, maxlen):
        for seq in itertools.product(wf_small, repeat=L):
            for pos in range(L + 1):
                for m in MAL:
                    out.append(seq[:pos] + (m,) + seq[pos:])
    # frames in which an AVP's own length field is below the AVP header size
    for m in MAYBE:
        out += [(m,), ("dwr", m), (m, "dwr"), (m, m), ("dwr", m, "dwr")]
    # well-formed streams of 6
    out.append(("dwr", "hdr", "cer", "dwr", "undec", "dwr"))
    out.append(("hdr",) * 6)
    if tier == "thorough":
        out.append(("dwr", "big8k", "dwr"))
        out.append(("cer", "undec2", "hdr", "undec", "dwr", "cer"))
    return out


# ------------------------------------------------------------------ two connections' readers decode in the same instant
def race_execute(kinds_a, kinds_b, prefix):
    """Two bare connections each receive a stream in the same instant; their reader threads frame and decode concurrently.
    Scheduling points: every call inside the codec and every line of the framing loop."""
    from .. import codecrace, scheddfs
    sk.install()
    import diameter.node.peer as P
    import diameter.message._base as MB
    # line granularity also where a frame's header is parsed: a switch between two primitive reads of one header must be explorable
    sk.set_line_points({sk.code_of(P.PeerConnection, "work_read_queue"): None, sk.code_of(MB.MessageHeader, "from_bytes"): None,
                        sk.code_of(MB.Message, "from_bytes"): None})
    sk.set_call_points(codecrace.codec_codes())
    ch = scheddfs.Chooser(prefix)
    w = sk.World(chooser=ch)
    try:
        conns, gots, frames_all = [], [], []
        for kinds, base in ((kinds_a, 0x1000), (kinds_b, 0x5000)):
            frames = [_frame(k, base + 16 * i) for i, k in enumerate(kinds)]
            r, wr = sk.OsShim().pipe()
            c = P.PeerConnection("10.0.0.2", 3868, P.PEER_RECV, wr)
            c.state = P.PEER_READY
            got = []
            c.message_handler = functools.partial(lambda got, conn, m: got.append(m.as_bytes()), got)
            conns.append(c)
            gots.append(got)
            frames_all.append(frames)
        w.run()
        for c, frames in zip(conns, frames_all):
            c.add_in_bytes(b"".join(frames))
        w.points_on = True
        ch.window = True
        w.run(max_steps=60_000)
        ch.window = False
        w.points_on = False
        want = tuple(tuple(f for k, f in zip(kinds, frames) if k not in UNDEC and k not in MAL) for kinds, frames in zip((kinds_a, kinds_b), frames_all))
        dead = tuple(repr(t.exc) for t in w.threads if t.exc is not None)
        obs = (tuple(tuple(g) for g in gots) == want, tuple(len(g) for g in gots), tuple(len(x) for x in want), tuple(c.state == P.PEER_CLOSED for c in conns), dead)
        return obs, ch
    finally:
        w.shutdown()
        sk.set_call_points([])


def race_check(obs):
    same, ngot, nwant, closed, dead = obs
    vs = []
    if not same:
        vs.append(("framing:two-connections-at-once:delivered-messages-differ-from-the-streams", f"delivered {ngot} messages, streams hold {nwant} decodable frames (or contents differ)"))
    if any(closed):
        vs.append(("framing:two-connections-at-once:connection-closed", f"{closed}"))
    if dead:
        vs.append(("framing:two-connections-at-once:reader-died", f"{dead}"))
    return vs


RACES = [(("dwr", "cer"), ("cer", "dwr")), (("dwr", "undec", "dwr"), ("cer",)), (("dwr", "dwr", "dwr", "dwr", "dwr"), ("cer",))]


# ------------------------------------------------------------------ the node's own socket reads (segment sizes around its read size)
def work_segments(sizes):
    """A ready connection of a started node receives one segment of exactly `size` bytes made of watchdog requests (padded with an
    unknown AVP), then nothing for 2 s, then one more request: every request must be answered, whatever the segment size is
    relative to the node's recv() size."""
    from .. import env
    out = []
    n = 0
    for size in sizes:
        n += 1
        cfg = {"node": {"ips": ["10.0.0.1"], "tcp_port": 3868, "idle_timeout": 600, "wakeup": 5},
               "peers": [{"name": "peer1.example.org"}], "apps": [{"id": env.APP_ACCT, "acct": True, "peers": [0]}]}
        nw = env.NodeWorld(cfg)
        try:
            sock, cea = env.handshake_in(nw)
            if cea is None or cea.result_code != 2001:
                raise sk.HarnessError("set-up handshake failed")
            # k requests of equal size + one absorbing the remainder; sizes are multiples of 4, at least 80 bytes each
            per = 512 if size >= 1024 else max(80, size // 2 // 4 * 4)
            frames = []
            left = size
            i = 0
            while left > 0:
                this = per if left - per >= 80 else left
                pad = this - 68 - 8
                d = rc.enc_msg(env.CMD_DWR, 0x80, 0, 0x7000 + i, 0x8000 + i,
                               [rc.octets(264, b"peer1.example.org"), rc.octets(296, b"example.org"), rc.enc_avp(9_000_001, b"p" * pad, 0, 0)])
                if len(d) != this:
                    raise sk.HarnessError(f"segment builder: frame of {len(d)} bytes instead of {this}")
                frames.append(d)
                left -= this
                i += 1
            nw.deliver(sock, b"".join(frames))
            nw.tick(2)
            last = env.dwr(hbh=0x7fff, e2e=0x8fff)
            nw.deliver(sock, last)
            nw.tick(1)
            answers = {(f.h.hbh, f.h.e2e) for f in nw.frames(sock) if not f.h.is_request and f.h.code == env.CMD_DWR}
            want = {(0x7000 + j, 0x8000 + j) for j in range(len(frames))} | {(0x7fff, 0x8fff)}
            if answers != want or sock.closed:
                out.append(Violation("framing:node-read:requests-of-one-segment-not-all-answered",
                                     f"segment of {size} bytes = {len(frames)} requests + 1 later: answered {len(answers & want)} of {len(want)}, closed={sock.closed}",
                                     {"segment": size}))
            fails = nw.thread_failures()
            if fails:
                out.append(Violation("framing:node-read:thread-died", f"segment of {size} bytes: {fails}", {"segment": size}))
        finally:
            nw.close()
    return n, out


SEGMENTS = [160, 1024, 2044, 2048, 2052, 4092, 4096, 4100, 6144, 8192, 16384]


def work_long_pause(pauses):
    """Requests separated by a long silence of the peer (bookkeeping that ages out must not stop the reader)."""
    from .. import env
    out = []
    for pause in pauses:
        cfg = {"node": {"ips": ["10.0.0.1"], "tcp_port": 3868, "idle_timeout": 100_000, "wakeup": 50},
               "peers": [{"name": "peer1.example.org"}], "apps": [{"id": env.APP_ACCT, "acct": True, "peers": [0]}]}
        nw = env.NodeWorld(cfg)
        try:
            sock, cea = env.handshake_in(nw)
            want = set()
            for i in range(4):
                nw.deliver(sock, env.dwr(hbh=0x7100 + i, e2e=0x8100 + i))
                want.add((0x7100 + i, 0x8100 + i))
                nw.tick(pause if i < 3 else 1)
            answers = {(f.h.hbh, f.h.e2e) for f in nw.frames(sock) if not f.h.is_request and f.h.code == env.CMD_DWR}
            if answers != want or sock.closed or nw.thread_failures():
                out.append(Violation("framing:node-read:requests-after-a-long-silence-not-answered",
                                     f"4 requests {pause} s apart: answered {len(answers & want)}, closed={sock.closed}, dead threads {nw.thread_failures()}", {"pause": pause}))
        finally:
            nw.close()
    return len(pauses), out


def run(tier):
    rep = Report("C05", tier, "fault_enumeration")
    common.pool()
    from .. import scheddfs
    tasks = [(functools.partial(race_execute, a, b), race_check, 1) for a, b in RACES]
    nrace = 0
    for (a, b), r in zip(RACES, scheddfs.explore_many(tasks, time_cap=300 if tier != "thorough" else 900)):
        nrace += r["executions"]
        for (key, detail), choices in r["violations"]:
            rep.add(Violation(key, f"[streams {a} and {b} on two connections, 1 preemption] choices {choices}: {detail}", {"race": [list(a), list(b)], "choices": choices}))
        rep.sample({"two_connections": [a, b], "preemption_bound": 1, "executions": r["executions"], "distinct_outcomes": len(r["outcomes"]),
                    "branching_points": r["max_points"], "capped": r["capped"]})
    rep.cov["schedules"] = nrace
    nseg = 0
    for n, vs in common.pmap(work_segments, [[x] for x in SEGMENTS], chunksize=1):
        nseg += n
        rep.extend(vs)
    for n, vs in common.pmap(work_long_pause, [[p] for p in (7, 61, 1001, 3700, 90_000)], chunksize=1):
        nseg += n
        rep.extend(vs)
    rep.sample({"node_level_segments": SEGMENTS, "pauses_between_requests_s": [7, 61, 1001, 3700, 90_000]})
    rep.cov["node_read_segments"] = nseg
    sts = streams(tier)
    # longest first for better load balance
    sts.sort(key=lambda s: -sum({"big": 3200, "big8k": 8200}.get(k, 80) for k in s))
    total = 0
    distinct = 0
    for kinds, n, nout, vs in common.pimap(work, [(s, tier) for s in sts]):
        total += n
        distinct += nout
        for key, detail, case, cnt in vs:
            rep.add(Violation(key, detail, case))
            rep.violation_counts[key] += cnt - 1
        rep.sample({"stream": kinds, "cut_patterns_executed": n, "distinct_outcomes": nout}, 8)
    rep.cov.update({"evaluations": total, "distinct_nontrivial": distinct, "streams": len(sts),
                    "rule": "streams = all sequences (<=2 quick / <=3 thorough frames) over {dwr, header-only, cer, 3 KiB request, "
                            "2 undecodable-body frames} + one malformed-length frame {0..19, real-4, real+4} at every position; "
                            "cuts = every 1-cut, every 2-cut (short streams) or every pair of boundary/header-end neighbourhoods, "
                            "fixed chunk sizes incl. byte-at-a-time; chunks handed over one by one, all at once, or (1-cuts, chunk sizes >= 64) with a 6 s pause of the sender "
                            "after each chunk; distinct = distinct (delivered, reader status, closed) per stream",
                    "exhaustive": True})
    rep.assumptions += ["the environment feeds PeerConnection.add_in_bytes like Node._handle_connections does",
                        "spin = more than 3000 loop back-edges in diameter.node code without a scheduling point"]
    return rep.finish()


def replay(case):
    if "pause" in case:
        return work_long_pause([case["pause"]])[1]
    if "segment" in case:
        return work_segments([case["segment"]])[1]
    if "race" in case:
        from .. import scheddfs
        a, b = (tuple(x) for x in case["race"])
        obs, ch = scheddfs.replay_choices(functools.partial(race_execute, a, b), case["choices"])
        return [Violation(k, d) for k, d in race_check(obs)]
    kinds = tuple(case["kinds"])
    frames, expected = build_stream(kinds)
    want = case["cuts"]
    for desc, chunks in cut_patterns(frames, "thorough", None):
        for mode in ("drain", "queued", "pause"):
            if list(desc) + [mode] == want:
                obs = execute(kinds, chunks, mode)
                obs2 = execute(kinds, chunks, mode)
                if obs != obs2:
                    raise sk.HarnessError("replay is not deterministic")
                return judge(kinds, expected, obs, want)
    raise sk.HarnessError("cut pattern not found")
