"""C06 - the capabilities exchange gates all traffic and yields the specified outcome."""
from __future__ import annotations

import copy

from .. import common, env, monitors
from ..common import Report

BASE = {
    "node": {"ips": ["10.0.0.1"], "tcp_port": 3868, "cer_timeout": 2, "cea_timeout": 2, "idle_timeout": 6, "dwa_timeout": 3, "wakeup": 1},
    "peers": [{"name": "peer1.example.org"}, {"name": "peer2.example.org", "cer_timeout": 3, "cea_timeout": 3}],
    "apps": [{"id": env.APP_ACCT, "acct": True, "peers": [0, 1]}, {"id": env.APP_AUTH, "auth": True, "peers": [0]}],
}
MONS = [monitors.GateMonitor, monitors.AnswerMonitor]
SCTP_MODELS = ("inbound-one-connection", "inbound-traffic-vs-timeout", "outbound-ok-peer0", "outbound-inprogress-peer1", "stop-while-awaiting-the-CEA",
               "two-ready-peers-and-one-awaiting-CEA")


def models(tier):
    out = []
    inb = [("accept",)]
    for c in (0,):
        inb += [("m", c, n) for n in ("cer_p0", "cer_v6p0", "cer_unknown", "cer_nocommon", "cer_crosskind", "cer_relay", "cer_vsa", "cer_vsa_acct", "cer_vsa_cross", "cer_nohost", "cer_badip", "dwr", "dwa", "dpr", "dpa", "req", "ans_unknown")]
        inb += [("b", c, "cer_unknown", "req"), ("b", c, "cer_p0", "req"), ("b", c, "cer_nocommon", "dwr"), ("b", c, "cer_nocommon", "req"),
                ("b", c, "dwr", "cer_p0"), ("b", c, "cer_unknown", "dpr"), ("eof", c)]
    inb += [("tick", 1)]
    out.append(monitors.ScenarioModel("inbound-one-connection", BASE, inb, MONS, max_socks=1))
    # two inbound connections, second configured peer has its own (longer) timeout
    two = [("accept",), ("tick", 1)]
    for c in (0, 1):
        two += [("m", c, n) for n in ("cer_p0", "cer_p1", "cer_unknown", "dwr", "req")]
    out.append(monitors.ScenarioModel("inbound-two-connections", BASE, two, MONS, max_socks=2))
    # peers that each share only a part of what the node offers, one after the other and side by side (whatever one capabilities
    # exchange negotiated must not change what the node offers in the next one)
    sub = [("accept",)]
    for c in (0, 1):
        sub += [("m", c, n) for n in ("cer_onlyacct", "cer_onlyauth", "cer_onlyacct@1", "cer_onlyauth@1", "cer_nocommon", "cer_relay@1", "cer_p1")] + [("eof", c)]
    out.append(monitors.ScenarioModel("inbound-peers-sharing-subsets", BASE, sub, MONS, max_socks=2))
    # stop() while a connection is still waiting for its CER / CEA: the gate stays shut for it during the shutdown window as well
    out.append(monitors.ScenarioModel("stop-while-awaiting-the-CER", BASE,
                                      [("stop", False, 3), ("m", 0, "dwr"), ("m", 0, "req"), ("m", 0, "cer_p0"), ("m", 0, "dpa"), ("tick", 1)],
                                      MONS, max_socks=1, prelude=[("accept",)]))
    obs_ = copy.deepcopy(BASE)
    obs_["peers"][0].update({"ips": ["10.1.0.9"], "persistent": True, "reconnect_wait": 30})
    out.append(monitors.ScenarioModel("stop-while-awaiting-the-CEA", obs_,
                                      [("stop", False, 3), ("m", 0, "dwr"), ("m", 0, "req"), ("m", 0, "cea_ok"), ("m", 0, "dpa"), ("tick", 1)],
                                      MONS, max_socks=1, start_plan=["ok"]))
    # traffic that is not a CE message must not postpone the CE timeout (needs depth: small alphabet)
    out.append(monitors.ScenarioModel("inbound-traffic-vs-timeout", BASE,
                                      [("tick", 1), ("m", 0, "dwr"), ("m", 0, "req"), ("m", 0, "cer_p0"), ("m", 0, "cer_nocommon")],
                                      MONS, max_socks=1, prelude=[("accept",)]))
    # ... also when traffic keeps arriving more often than the node's wake-up interval (its select never times out)
    slow = copy.deepcopy(BASE)
    slow["node"].update({"wakeup": 3, "cer_timeout": 1})
    out.append(monitors.ScenarioModel("inbound-traffic-more-frequent-than-the-wake-up-interval", slow,
                                      [("seq", ("tick", 1), ("m", 0, "dwr")), ("seq", ("tick", 1), ("m", 0, "req")), ("tick", 1), ("m", 0, "cer_p0")],
                                      MONS, max_socks=1, prelude=[("accept",)]))
    # no application at all / acct only
    noapp = copy.deepcopy(BASE)
    noapp["apps"] = []
    out.append(monitors.ScenarioModel("inbound-node-without-applications", noapp,
                                      [("accept",), ("tick", 1)] + [("m", 0, n) for n in ("cer_p0", "cer_relay", "cer_unknown", "dwr", "req_acct")],
                                      MONS, max_socks=1))
    # outbound: persistent peer dialled at start; connect answers ok / in progress
    for plan in ("ok", "inprogress"):
        for peer_i, tmo in ((0, None), (1, 3)):
            ob = copy.deepcopy(BASE)
            ob["peers"][peer_i].update({"ips": ["10.1.0.9"], "persistent": True, "reconnect_wait": 30})
            alpha = [("m", 0, n) for n in ("cea_ok", "cea_3xxx", "cea_5xxx", "cea_nohost", "cea_norc", "dwr", "dwa", "req", "ans_unknown", "dpr")]
            alpha += [("tick", 1), ("send", 0, "own"), ("eof", 0)]
            if plan == "inprogress":
                alpha += [("resolve", 0, True), ("resolve", 0, False)]
            out.append(monitors.ScenarioModel(f"outbound-{plan}-peer{peer_i}", ob, alpha, MONS, max_socks=1, start_plan=[plan]))
    # three peers serve one application: two are ready (and have some traffic behind them), the third has been dialled and its
    # CEA is outstanding; requests sent by the application must never leave on the third connection before its CEA
    three = copy.deepcopy(BASE)
    three["peers"].append({"name": "peer3.example.org", "ips": ["10.1.0.3"], "persistent": True, "reconnect_wait": 30, "cea_timeout": 600})
    three["apps"][0]["peers"] = [0, 1, 2]
    out.append(monitors.ScenarioModel("two-ready-peers-and-one-awaiting-CEA", three,
                                      [("send", 0, "own"), ("m", 0, "cea_ok"), ("m", 0, "cea_5xxx"), ("m", 1, "dwr"), ("m", 2, "req"), ("tick", 1), ("eof", 1)],
                                      MONS, max_socks=3, start_plan=["ok"],
                                      prelude=[("accept",), ("m", 1, "cer_p0"), ("accept",), ("m", 2, "cer_p1"), ("m", 1, "dwr"), ("m", 2, "dwr")]))
    # a second deterministic scheduling policy (the I/O thread runs only when nothing else can)
    if True:
        out = monitors.with_io_last(out)
    return out


# ------------------------------------------------------------------ E4: schedules inside the CER handling
def sched_execute(variant, prefix):
    """accept (default schedule), then deliver one CER with every thread interleaving explored at line
    granularity inside receive_cer / send_message; then let time pass and judge with the same monitors."""
    from .. import scenario, scheddfs, simkernel as sk
    import diameter.node.node as nn
    import diameter.node.peer as pp
    sk.install()
    sk.set_line_points({sk.code_of(nn.Node, "receive_cer"): None, sk.code_of(nn.Node, "send_message"): None,
                        sk.code_of(pp.PeerConnection, "work_write_queue"): None})
    ch = scheddfs.Chooser(prefix)
    sc = scenario.Scenario(BASE, chooser=ch, max_socks=1)
    try:
        nw = sc.start()
        mons = [m(sc) for m in MONS]
        vs = []
        sc.apply(("accept",))
        for m in mons:
            vs += m.step()
        nw.world.points_on = True
        ch.window = True
        sc.apply(("m", 0, variant))
        ch.window = False
        nw.world.points_on = False
        for m in mons:
            vs += m.step()
        for _ in range(2):
            sc.apply(("tick", 1))
            for m in mons:
                vs += m.step()
        s = sc.socks[0]
        conn = nw.conn_of(s.fs)
        obs = (variant, tuple(sorted(set(k for k, d in vs))), s.fs.closed, conn.state if conn else None, tuple(nw.thread_failures()))
        return (obs, tuple(vs)), ch
    finally:
        sc.close()


def sched_check(obs_vs):
    obs, vs = obs_vs
    return [(k + ":under-some-schedule", d) for k, d in vs]


def run(tier):
    rep = Report("C06", tier, "model_checking")
    common.pool()
    import functools
    from .. import scheddfs
    from ..common import Violation
    bound = 2 if tier == "thorough" else 1
    tasks = [(functools.partial(sched_execute, v), sched_check, bound) for v in ("cer_unknown", "cer_p0", "cer_nocommon")]
    sched_execs = 0
    for v, r in zip(("cer_unknown", "cer_p0", "cer_nocommon"), (scheddfs.explore_many(tasks) if tier != "thorough" else scheddfs.explore_many_capped(tasks, 1, 600))):
        sched_execs += r["executions"]
        for (key, detail), choices in r["violations"]:
            rep.add(Violation(key, f"[schedules of {v}, bound {bound}] choices {choices}: {detail}", {"sched": v, "choices": choices}))
        rep.sample({"schedule_exploration": v, "preemption_bound": bound, "bound_completed_without_cap": r.get("bound_completed", bound), "capped": r.get("capped", False), "executions": r["executions"], "distinct_outcomes": len(r["outcomes"]),
                    "branching_points": r["max_points"]}, 12)
    rep.cov["schedules"] = sched_execs
    depth = 6 if tier == "thorough" else 5
    ms = models(tier)
    tot = monitors.run_models(rep, [m for m in ms if not m.name.startswith("inbound-traffic-")], depth, dedup_depth_plain=depth - 2,
                              time_cap=900 if tier == "thorough" else 100)
    t2 = monitors.run_models(rep, [m for m in ms if m.name.startswith("inbound-traffic-")], depth + 3, dedup_depth_plain=depth,
                             time_cap=900 if tier == "thorough" else 100)
    for k in tot:
        tot[k] = max(tot[k], t2[k]) if k == "max_depth" else tot[k] + t2[k]
    # the same gate over SCTP: listen / accept / connectx / sctp_send are separate branches of the node
    t3 = monitors.run_models(rep, monitors.sctp_copies(ms, SCTP_MODELS), depth - 1, time_cap=600 if tier == "thorough" else 45)
    monitors.merge_tot(tot, t3)
    rep.cov.update({"states": tot["states"], "transitions": tot["transitions"], "traces_validated_against_impl": tot["transitions"] + tot["plain_transitions"] + sched_execs,
                    "max_depth": tot["max_depth"], "states_without_dedup": tot["plain_states"],
                    "explanation": "explicit-state BFS over histories of CER/CEA variants, bursts, base and application traffic, clock ticks, on inbound "
                                   "and outbound connections and 7 node configurations; gate + outcome + timeout monitor, answer monitor attached"})
    rep.assumptions += ["CE timeout is measured from connection establishment; other traffic does not extend it",
                        "histories with a second CER on one connection are not generated"]
    return rep.finish()


def replay(case):
    from .c07 import replay as generic
    from ..common import Violation
    if "sched" in case:
        import functools
        from .. import scheddfs
        obs_vs, ch = scheddfs.replay_choices(functools.partial(sched_execute, case["sched"]), case["choices"])
        return [Violation(k, d) for k, d in sched_check(obs_vs)]
    hist = tuple(tuple(e) for e in case["history"])
    for m in models("thorough"):
        if m.name == case["model"]:
            out = []
            for k in range(1, len(hist) + 1):
                r = m.build(hist[:k])
                if r is not None:
                    out += [Violation(key, d) for key, d in r[1]]
            return out
    return []
