"""C07 - every transmitted answer answers exactly one pending request of that connection."""
from __future__ import annotations

import copy

from .. import common, env, monitors
from ..common import Report

BASE = {
    "node": {"ips": ["10.0.0.1"], "tcp_port": 3868, "cer_timeout": 3, "cea_timeout": 3, "idle_timeout": 3, "dwa_timeout": 2, "wakeup": 1},
    "peers": [{"name": "peer1.example.org"}, {"name": "peer2.example.org"}],
    "apps": [{"id": env.APP_ACCT, "acct": True, "peers": [0, 1]}],
}


def models(tier):
    ready = [("m", 0, n) for n in ("req", "req_big", "req_noP", "req_E", "dwr", "dwa", "dpr", "dpa", "req_missing", "req_unkapp", "req_foreign", "unkcmd", "untyped",
                                   "ans_unknown", "ans_nohost", "ans_norc", "dwa_nohost", "dwa_norc",
                                   "dwr_e2e0", "dwr_hbh0", "req_e2e0", "ans_T_replay")]
    ready += [("ans", 0), ("ans", 1), ("ans2", 0), ("tick", 2), ("b", 0, "dwr", "dwr"), ("b", 0, "req", "req_unkapp"), ("b", 0, "dwr", "dpr")]
    m1 = monitors.ScenarioModel("inbound-ready", BASE, ready, [monitors.AnswerMonitor], max_socks=1,
                                prelude=[("accept",), ("m", 0, "cer_p0")])
    # reads that end inside the next message (its header complete, its body not), and reads holding an undecodable frame behind a request
    auto = copy.deepcopy(BASE)
    auto["apps"][0]["behaviour"] = "answer"
    mcut = monitors.ScenarioModel("reads-ending-inside-the-next-message", auto,
                                  [("mcut", 0, "dwr", "dwr"), ("mcut", 0, "req", "dwr"), ("mcut", 0, "dwr", "req"), ("mcut", 0, "req_missing", "req"),
                                   ("m", 0, "dwr"), ("m", 0, "req")],
                                  [monitors.AnswerMonitor], max_socks=1, prelude=[("accept",), ("m", 0, "cer_p0")])
    raising = copy.deepcopy(BASE)
    raising["apps"][0]["behaviour"] = "raise"
    m1r = monitors.ScenarioModel("inbound-ready-handler-raises", raising,
                                 [("m", 0, n) for n in ("req", "dwr", "req_missing", "ans_unknown", "untyped")] + [("tick", 2)],
                                 [monitors.AnswerMonitor], max_socks=1, prelude=[("accept",), ("m", 0, "cer_p0")])
    wdc = copy.deepcopy(BASE)
    wdc["node"].update({"idle_timeout": 2, "dwa_timeout": 4})
    m1w = monitors.ScenarioModel("inbound-awaiting-DWA", wdc,
                                 [("m", 0, n) for n in ("req", "dwr", "dwa", "dpr", "req_missing", "req_unkapp", "ans_unknown", "dwa_nohost", "unkcmd")] +
                                 [("ans", 0), ("ans", 1), ("tick", 1), ("b", 0, "dwa", "req"), ("b", 0, "dpr", "dwa")],
                                 [monitors.AnswerMonitor], max_socks=1, prelude=[("accept",), ("m", 0, "cer_p0"), ("tick", 3)])
    norc = copy.deepcopy(BASE)
    norc["apps"][0]["behaviour"] = "answer_norc"
    m1n = monitors.ScenarioModel("inbound-ready-handler-answers-without-result-code", norc,
                                 [("m", 0, n) for n in ("req", "dwr", "req_missing", "untyped", "req_big")] + [("tick", 2), ("b", 0, "req", "req")],
                                 [monitors.AnswerMonitor], max_socks=1, prelude=[("accept",), ("m", 0, "cer_p0")])
    unid = [("m", 0, n) for n in ("cer_p0", "cer_unknown", "cer_nocommon", "cer_nohost", "cer_badip", "dwr", "dwa", "dpr", "dpa", "req", "ans_unknown",
                                  "cea_unsolicited")] + [("tick", 1), ("b", 0, "cer_unknown", "req"), ("b", 0, "cer_p0", "req"), ("b", 0, "cer_nocommon", "dwr")]
    m2 = monitors.ScenarioModel("inbound-unidentified", BASE, unid, [monitors.AnswerMonitor], max_socks=1, prelude=[("accept",)])
    outb = copy.deepcopy(BASE)
    outb["peers"][0].update({"ips": ["10.1.0.1"], "persistent": True})
    out_alpha = [("m", 0, n) for n in ("cea_ok", "cea_3xxx", "cea_5xxx", "cea_nohost", "cea_norc", "dwr", "dwa", "req", "ans", "ans_dup",
                                       "ans_unknown", "ans_nohost", "dpr")] + [("send", 0, "own"), ("tick", 2), ("ans", 0)]
    m3 = monitors.ScenarioModel("outbound", outb, out_alpha, [monitors.AnswerMonitor], max_socks=1)
    two = []
    for c in (0, 1):
        two += [("m", c, "req"), ("m", c, "dwr"), ("eof", c), ("m", c, "dpr")]
    two += [("ans", 0), ("ans", 1), ("ans", 2), ("tick", 2)]
    m4 = monitors.ScenarioModel("two-ready-connections", BASE, two, [monitors.AnswerMonitor], max_socks=2,
                                prelude=[("accept",), ("m", 0, "cer_p0"), ("accept",), ("m", 1, "cer_p1")])
    # one peer with two connections (both ready, or the second one arriving later): an answer belongs to the socket its request came from
    same = [("accept",), ("m", 2, "cer_p0"), ("tick", 2)]
    for c in (0, 1):
        same += [("m", c, "req"), ("eof", c), ("m", c, "dpr")]
    same += [("ans", 0), ("ans", 1), ("ans2", 0)]
    m5 = monitors.ScenarioModel("one-peer-several-connections", BASE, same, [monitors.AnswerMonitor], max_socks=3,
                                prelude=[("accept",), ("m", 0, "cer_p0"), ("accept",), ("m", 1, "cer_p0")])
    # long silences between answers of one kind (per-peer bookkeeping about sent answers ages out after 1000 s; it must not cost or
    # double an answer when that kind of answer is sent again), watchdogs keeping the connection alive meanwhile
    ls = copy.deepcopy(BASE)
    ls["node"].update({"idle_timeout": 100_000, "wakeup": 50})
    ls["apps"][0]["behaviour"] = "answer"
    m6 = monitors.ScenarioModel("long-silences", ls, [("m", 0, n) for n in ("req_unkapp", "req", "req_missing", "dwr")] + [("tick", 1001), ("tick", 600)],
                                [monitors.AnswerMonitor], max_socks=1, prelude=[("accept",), ("m", 0, "cer_p0"), ("m", 0, "req_unkapp"), ("m", 0, "req")])
    m6.key_time = True
    out = [m1, mcut, m1r, m1n, m1w, m2, m3, m4, m5, m6]
    # a second deterministic scheduling policy (the I/O thread runs only when nothing else can): thorough tier
    if tier == "thorough":
        out = monitors.with_io_last(out)
    return out


# ------------------------------------------------------------------ E4: one request answered from two threads / while its connection goes
SCHED_VARIANTS = ("double", "eof", "dpr")


def sched_execute(variant, prefix):
    """The scenario of C09's schedule exploration (an application thread submits its answer while a second thread submits
    the same answer / the requester's connection is lost / sends a DPR), judged by the answer monitor: whatever the
    interleaving, every answer written answers exactly one pending request of that socket."""
    from . import c09
    (obs, vs), ch = c09.sched_execute(variant, prefix)
    keep = tuple((k, d) for k, d in vs if k.startswith("answer:") or k.endswith("application-answer-transmitted-twice"))
    return ((obs[0], obs[2], tuple(sorted(set(k for k, d in keep)))), keep), ch


def sched_check(obs_vs):
    obs, vs = obs_vs
    return [(k + ":under-some-schedule", d) for k, d in vs]


def run(tier):
    rep = Report("C07", tier, "model_checking")
    common.pool()
    import functools
    from .. import scheddfs
    from ..common import Violation
    bound = 2 if tier == "thorough" else 1
    sched = 0
    tasks = [(functools.partial(sched_execute, v), sched_check, bound) for v in SCHED_VARIANTS]
    for v, r in zip(SCHED_VARIANTS, (scheddfs.explore_many(tasks) if tier != "thorough" else scheddfs.explore_many_capped(tasks, 1, 600))):
        sched += r["executions"]
        for (key, detail), choices in r["violations"]:
            rep.add(Violation(key, f"[answer submitted from an application thread, variant {v}, bound {bound}] choices {choices}: {detail}",
                              {"sched": v, "choices": choices}))
        rep.sample({"schedule_exploration": f"application thread(s) in send_answer, variant {v}, line granularity in route_answer/send_message/close path",
                    "preemption_bound": bound, "bound_completed_without_cap": r.get("bound_completed", bound), "capped": r.get("capped", False), "executions": r["executions"], "distinct_outcomes": len(r["outcomes"]), "branching_points": r["max_points"]})
    rep.cov["schedules"] = sched
    depth = 6 if tier == "thorough" else 4
    tot = monitors.run_models(rep, [m for m in models(tier) if not m.name.startswith("long-silences")], depth, dedup_depth_plain=(depth - 2), time_cap=900 if tier == "thorough" else 100)
    # (a pass of its own, so that its depth does not depend on how much of the shared time budget the larger models have used)
    t_ls = monitors.run_models(rep, [m for m in models(tier) if m.name.startswith("long-silences")], depth, time_cap=400 if tier == "thorough" else 60)
    monitors.merge_tot(tot, t_ls)
    # the same monitors on SCTP connections (accept / sctp_send / close branches of the node)
    t_sctp = monitors.run_models(rep, monitors.sctp_copies(models(tier), ('inbound-ready', 'inbound-unidentified', 'outbound')), depth - 1, time_cap=400 if tier == "thorough" else 25)
    monitors.merge_tot(tot, t_sctp)
    rep.cov.update({"states": tot["states"], "transitions": tot["transitions"], "traces_validated_against_impl": tot["transitions"] + tot["plain_transitions"],
                    "max_depth": tot["max_depth"], "states_without_dedup": tot["plain_states"],
                    "explanation": "explicit-state BFS over event histories; every transition executes the real node to quiescence; "
                                   "the answer monitor matches each frame written with R clear against the multiset of requests read from that socket"})
    rep.assumptions += ["one environment event is one atomic transition (default schedule inside a transition)",
                        "hop-by-hop ids of in-flight requests are connection-unique"]
    return rep.finish()


def replay(case):
    from ..common import Violation
    if "sched" in case:
        import functools
        from .. import scheddfs
        obs_vs, ch = scheddfs.replay_choices(functools.partial(sched_execute, case["sched"]), case["choices"])
        return [Violation(k, d) for k, d in sched_check(obs_vs)]
    hist = tuple(tuple(e) for e in case["history"])
    for m in models("thorough"):
        if m.name == case["model"]:
            out = []
            for k in range(1, len(hist) + 1):
                r = m.build(hist[:k])
                if r is not None:
                    out += [Violation(key, d) for key, d in r[1]]
            r2 = m.build(hist)
            if r is not None and r2 is not None and r[0] != r2[0]:
                raise RuntimeError("replay is not deterministic")
            return out
    return []
