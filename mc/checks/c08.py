"""C08 - requests reach exactly the matching application, else the specified error answer."""
from __future__ import annotations

import copy
import itertools

from .. import common, env, monitors, refcodec as rc, scenario, simkernel as sk
from ..common import Report, Violation
from . import c03

R, P = 0x80, 0x40
MONS = [monitors.RouteMonitor, monitors.AnswerMonitor]

CFG3 = {
    "node": {"ips": ["10.0.0.1"], "tcp_port": 3868, "cer_timeout": 4, "cea_timeout": 4, "idle_timeout": 6, "dwa_timeout": 3, "wakeup": 2},
    "peers": [{"name": "peer1.example.org"}, {"name": "peer2.example.org"}],
    "apps": [{"id": 3, "acct": True, "peers": [0]},                                   # A0: app 3 for peer1
             {"id": 3, "acct": True, "peers": [1]},                                   # A1: same id, for peer2
             {"id": 4, "auth": True, "peers": [0], "realms": ["realm2.example"]}],    # A2: app 4 for peer1, also serves realm2
}


def models(tier):
    out = []
    msgs = ["rq:3:own", "rq:4:own", "rq:4:r2", "rq:3:r2", "rq:9:own", "rq:3:foreign", "rq:9:foreign", "rq:3:own:missing", "rq:9:foreign:missing", "rq:3:own:alias",
            "rq:3:own:missing:T", "rq:3:own:T", "dwr", "dwa", "untyped", "req_big", "req_noP"]
    alpha = [("m", 0, n) for n in msgs]
    alpha += [("m", 1, n) for n in ("rq:3:own", "rq:4:own", "rq:4:r2", "rq:3:r2", "rq:9:own", "rq:3:own:missing", "dwr")]      # the other peer: what differs per peer
    alpha += [("m", 0, "dpr"), ("ans", 0), ("ans", 1), ("tick", 2), ("send", 0, "foreign"), ("send", 2, "r2"), ("send", 0, "own")]
    out.append(monitors.ScenarioModel("three-apps-two-peers", CFG3, alpha, MONS, max_socks=2,
                                      prelude=[("accept",), ("m", 0, "cer_p0"), ("accept",), ("m", 1, "cer_p1")]))
    one = copy.deepcopy(CFG3)
    one["apps"] = [{"id": 3, "acct": True, "peers": [0], "behaviour": "raise"}]
    out.append(monitors.ScenarioModel("one-app-handler-raises", one,
                                      [("m", 0, n) for n in ("rq:3:own", "rq:3:own:missing", "rq:4:own", "rq:3:foreign", "dwr")] +
                                      [("m", 1, n) for n in ("rq:3:own", "rq:3:own:missing")] + [("tick", 2)],
                                      MONS, max_socks=2, prelude=[("accept",), ("m", 0, "cer_p0"), ("accept",), ("m", 1, "cer_p1")]))
    nr = copy.deepcopy(one)
    nr["apps"][0]["behaviour"] = "raise_notroutable"
    out.append(monitors.ScenarioModel("one-app-handler-fails-with-the-library's-NotRoutable", nr,
                                      [("m", 0, n) for n in ("rq:3:own", "rq:3:own:missing", "rq:4:own", "dwr")] + [("tick", 2)],
                                      MONS, max_socks=1, prelude=[("accept",), ("m", 0, "cer_p0")]))
    # several requests in one network read: each answer must still say what was wrong with *its* request
    out.append(monitors.ScenarioModel("requests-in-one-read", CFG3,
                                      [("b", 0, a, b) for a in ("rq:3:own:missing", "rq:3:own", "rq:9:own", "rq:3:foreign:missing")
                                       for b in ("rq:3:own:missing", "rq:3:own", "rq:4:r2", "rq:3:own:alias")] + [("ans", 0), ("ans", 1)] +
                                      # a read that ends 28 bytes into the next request: the request in front of it is handled once
                                      [("mcut", 0, a, b) for a, b in (("rq:3:own", "rq:4:r2"), ("rq:3:own", "rq:3:own:missing"), ("rq:9:own", "rq:3:own"))],
                                      MONS, max_socks=1, prelude=[("accept",), ("m", 0, "cer_p0")]))
    two = copy.deepcopy(CFG3)
    two["apps"] = [{"id": 3, "acct": True, "peers": [0, 1]}, {"id": 4, "auth": True, "peers": [1]}]
    two["peers"][1]["realm"] = "realm2.example"
    out.append(monitors.ScenarioModel("two-apps-peer-in-second-realm", two,
                                      [("m", c, n) for c in (0, 1) for n in ("rq:3:own", "rq:3:r2", "rq:4:own", "rq:4:r2", "rq:3:foreign", "dpr")] +
                                      [("ans", 0), ("tick", 2), ("eof", 0), ("eof", 1), ("accept",), ("m", 2, "cer_p0")],
                                      MONS, max_socks=3, prelude=[("accept",), ("m", 0, "cer_p0"), ("accept",), ("m", 1, "cer_p1")]))
    # one application, two peers, an additional realm: every (peer, realm) pair of the configuration is served
    xr = copy.deepcopy(CFG3)
    xr["apps"] = [{"id": 4, "auth": True, "peers": [0, 1], "realms": ["realm2.example"]}, {"id": 3, "acct": True, "peers": [1, 0], "realms": ["realm2.example"]}]
    out.append(monitors.ScenarioModel("two-peers-additional-realm", xr,
                                      [("m", c, n) for c in (0, 1) for n in ("rq:4:own", "rq:4:r2", "rq:3:r2", "rq:3:own", "rq:4:foreign")] + [("ans", 0), ("send", 0, "r2")],
                                      MONS, max_socks=2, prelude=[("accept",), ("m", 0, "cer_p0"), ("accept",), ("m", 1, "cer_p1")]))
    # one application whose two peers live in two realms, plus an additional realm: each peer is served for its own realm and for the
    # additional one, not for the other peer's realm
    xr2 = copy.deepcopy(CFG3)
    xr2["peers"][1]["realm"] = "realm2.example"
    xr2["apps"] = [{"id": 3, "acct": True, "peers": [0, 1], "realms": ["realm3.example"]}, {"id": 4, "auth": True, "peers": [1, 0], "realms": ["realm3.example"]}]
    out.append(monitors.ScenarioModel("peers-of-two-realms-and-an-additional-realm", xr2,
                                      [("m", c, n) for c in (0, 1) for n in ("rq:3:own", "rq:3:r2", "rq:3:r3", "rq:4:own", "rq:4:r2", "rq:3:foreign")] + [("ans", 0)],
                                      MONS, max_socks=2, prelude=[("accept",), ("m", 0, "cer_p0"), ("accept",), ("m", 1, "cer_p1")]))
    # long silences between requests (per-peer bookkeeping that ages out must not cost a request)
    ls = copy.deepcopy(CFG3)
    ls["node"].update({"idle_timeout": 100_000, "wakeup": 50})
    out.append(monitors.ScenarioModel("long-silences", ls, [("m", 0, "rq:3:own"), ("m", 0, "rq:9:own"), ("m", 0, "dwr"), ("tick", 1001), ("tick", 600), ("ans", 0)],
                                      MONS, max_socks=1, prelude=[("accept",), ("m", 0, "cer_p0"), ("m", 0, "rq:3:own"), ("m", 0, "rq:9:own")]))
    out[-1].key_time = True
    # requests arriving while the connection is in the second ready sub-state (DWR sent, DWA outstanding)
    wd = copy.deepcopy(CFG3)
    wd["node"].update({"idle_timeout": 2, "dwa_timeout": 30, "wakeup": 1})
    out.append(monitors.ScenarioModel("connection-awaiting-DWA", wd,
                                      [("m", 0, n) for n in ("rq:3:own", "rq:4:own", "rq:9:own", "rq:3:own:missing", "dwa", "dwr")] + [("ans", 0), ("tick", 1)],
                                      MONS, max_socks=1, prelude=[("accept",), ("m", 0, "cer_p0"), ("tick", 3)]))
    # ... the same with a handler that raises: still 5012 in the second ready sub-state
    wdr = copy.deepcopy(wd)
    wdr["apps"] = [{"id": 3, "acct": True, "peers": [0], "behaviour": "raise"}]
    out.append(monitors.ScenarioModel("connection-awaiting-DWA-handler-raises", wdr,
                                      [("m", 0, n) for n in ("rq:3:own", "rq:3:own:missing", "rq:9:own", "dwa", "dwr")] + [("tick", 1)],
                                      MONS, max_socks=1, prelude=[("accept",), ("m", 0, "cer_p0"), ("tick", 3)]))
    # a peer that advertised only a part of the node's applications in its CER is still served for every application it is configured for
    for var in ("cer_onlyacct", "cer_onlyauth"):
        out.append(monitors.ScenarioModel(f"peer-advertised-{var[4:]}", CFG3,
                                          [("m", 0, n) for n in ("rq:3:own", "rq:4:own", "rq:4:r2", "rq:9:own", "rq:3:own:missing")] + [("ans", 0), ("ans", 1)],
                                          MONS, max_socks=1, prelude=[("accept",), ("m", 0, var)]))
    # one peer holds two ready connections (it connected twice): requests are served on both, whichever the node regards as the
    # peer's current one, also after either of them has gone
    out.append(monitors.ScenarioModel("one-peer-two-connections", CFG3,
                                      [("m", c, n) for c in (0, 1) for n in ("rq:3:own", "rq:4:own", "rq:4:r2", "rq:9:own", "rq:3:own:missing", "dwr")] +
                                      [("eof", 0), ("eof", 1), ("m", 0, "dpr"), ("ans", 0), ("ans", 1)],
                                      MONS, max_socks=2, prelude=[("accept",), ("m", 0, "cer_p0"), ("accept",), ("m", 1, "cer_p0")]))
    # a second deterministic scheduling policy (the I/O thread runs only when nothing else can): thorough tier
    if tier == "thorough":
        out = monitors.with_io_last(out)
    return out


# ------------------------------------------------------------------ sweep over all typed request classes
def sweep_class(idx):
    """All required-attribute subsets of one typed request class on a READY connection of a matching node."""
    msgs, conts = c03.all_classes()
    reqs = [c for c in msgs if c.__name__.endswith("Request") and c.__name__ not in
            ("CapabilitiesExchangeRequest", "DeviceWatchdogRequest", "DisconnectPeerRequest")]
    cls = reqs[idx]
    b = c03.Builder()
    code = cls.code
    ans_cls = next((c for c in msgs if c.__name__ == cls.__name__[:-7] + "Answer" and c.__module__ == cls.__module__), None)
    has_failed = ans_cls is not None and any(d.attr_name == "failed_avp" for d in c03.defs_of(ans_cls))
    spec = b.full_spec(cls, 1, 0)
    defaults = c03.default_spec(b, cls)
    if "destination_realm" in spec:
        spec["destination_realm"] = ("s", env.NODE_REALM.encode())
    if "origin_host" in spec:
        spec["origin_host"] = ("s", b"peer1.example.org")
    required = []
    seen = set()
    for d in c03.defs_of(cls):
        if d.is_required and d.attr_name not in seen and d.attr_name in spec and d.attr_name not in defaults and not b.is_list(cls, d.attr_name):
            required.append(d)
            seen.add(d.attr_name)
    subsets = [()]
    subsets += [(d,) for d in required]
    subsets += list(itertools.combinations(required, 2))
    if len(required) > 2:
        subsets.append(tuple(required))
    cfg = {"node": {"ips": ["10.0.0.1"], "tcp_port": 3868, "idle_timeout": 600, "wakeup": 5},
           "peers": [{"name": "peer1.example.org"}],
           "apps": [{"id": 77, "auth": True, "peers": [0]}]}
    out = []
    sc = scenario.Scenario(cfg, max_socks=1)
    try:
        nw = sc.start()
        sc.apply(("accept",))
        s = sc.socks[0]
        nw.deliver(s.fs, env.cer(host="peer1.example.org", acct=(), auth=(77,)))
        fr = nw.frames(s.fs)
        if not fr or fr[0].result_code != 2001:
            raise sk.HarnessError("sweep set-up: CER not accepted")
        n = 0
        for k, sub in enumerate(subsets):
            n += 1
            sp = dict(defaults)
            sp.update(spec)
            for d in sub:
                sp.pop(d.attr_name, None)
            body = b"".join(b.ref_avps(cls, sp))
            hbh, e2e = 0x5000 + k, 0x6000 + k
            before = len(nw.requests)
            # every second incomplete request is flagged as a possible retransmission (never answered before)
            nw.deliver(s.fs, rc.enc_msg(code, R | P | (0x10 if sub and k % 2 else 0), 77, hbh, e2e, [body]))
            answers = [f for f in nw.frames(s.fs) if (f.h.hbh, f.h.e2e) == (hbh, e2e)]
            delivered = nw.requests[before:]
            case = {"class": cls.__name__, "removed": [d.attr_name for d in sub]}
            if not sub:
                if len(delivered) != 1 or answers:
                    out.append(Violation(f"sweep:complete-request-not-delivered-exactly-once:{cls.__name__}",
                                         f"{case}: delivered {len(delivered)}, answers {answers}", case))
                continue
            if delivered:
                out.append(Violation(f"sweep:request-with-missing-required-avp-reached-the-application:{cls.__name__}", f"{case}", case))
            if len(answers) != 1 or answers[0].result_code != 5005:
                out.append(Violation(f"sweep:missing-required-avp-not-answered-5005:{cls.__name__}", f"{case}: answers {answers}", case))
                continue
            if has_failed:
                listed = sorted((c, v) for p in answers[0].getall(279) for c, fl, v, pl in rc.dec_avps(p))
                want = sorted((d.avp_code, d.vendor_id) for d in sub)
                if listed != want:
                    out.append(Violation(f"sweep:failed-avp-does-not-list-exactly-the-missing-avps:{cls.__name__}",
                                         f"{case}: listed {listed}, want {want}", case))
        fails = nw.thread_failures()
        if fails:
            out.append(Violation(f"sweep:worker-thread-died:{cls.__name__}", f"{fails}", {"class": cls.__name__}))
        return n, len(required), out
    finally:
        sc.close()


def n_request_classes():
    msgs, conts = c03.all_classes()
    return len([c for c in msgs if c.__name__.endswith("Request") and c.__name__ not in
                ("CapabilitiesExchangeRequest", "DeviceWatchdogRequest", "DisconnectPeerRequest")])


# ------------------------------------------------------------------ E4: two connections' readers routing concurrently
def sched_execute(_cfgname, prefix):
    from .. import scheddfs
    import diameter.node.node as nn
    sk.install()
    sk.set_line_points({sk.code_of(nn.Node, "_receive_app_request"): None, sk.code_of(nn.Node, "_receive_message"): None})
    ch = scheddfs.Chooser(prefix)
    sc = scenario.Scenario(CFG3, chooser=ch, max_socks=2)
    try:
        nw = sc.start()
        mons = [m(sc) for m in MONS]
        vs = []
        for ev in (("accept",), ("m", 0, "cer_p0"), ("accept",), ("m", 1, "cer_p1")):
            sc.apply(ev)
        for m in mons:
            vs += m.step()
        s0, s1 = sc.socks
        d0 = sc.message(s0, "rq:3:own")
        d1 = sc.message(s1, "rq:3:own")
        nw.world.points_on = True
        ch.window = True
        nw.deliver(s0.fs, d0, run=False)
        nw.deliver(s1.fs, d1, run=False)
        nw.run()
        ch.window = False
        nw.world.points_on = False
        sc.sync()
        for m in mons:
            vs += m.step()
        for ev in (("m", 1, "rq:3:own"), ("m", 0, "rq:3:own"), ("m", 1, "rq:4:own"), ("m", 0, "rq:4:own")):
            sc.apply(ev)
            for m in mons:
                vs += m.step()
        obs = (tuple(sorted(set(k for k, d in vs))), tuple((a.index, m.header.hop_by_hop_identifier) for a, m in nw.requests), tuple(nw.thread_failures()))
        return (obs, tuple(vs)), ch
    finally:
        sc.close()


def sched_check(obs_vs):
    obs, vs = obs_vs
    return [(k + ":under-some-schedule", d) for k, d in vs]


def run(tier):
    rep = Report("C08", tier, "model_checking")
    common.pool()
    import functools
    from .. import scheddfs
    bound = 2 if tier == "thorough" else 1
    tasks = [(functools.partial(sched_execute, "cfg3"), sched_check, bound)]
    r = (scheddfs.explore_many(tasks) if tier != "thorough" else scheddfs.explore_many_capped(tasks, 1, 600))[0]
    for (key, detail), choices in r["violations"]:
        rep.add(Violation(key, f"[two readers routing concurrently, bound {bound}] choices {choices}: {detail}", {"sched": "cfg3", "choices": choices}))
    rep.sample({"schedule_exploration": "requests on two ready connections processed concurrently by their reader threads (line granularity in "
                                        "_receive_message/_receive_app_request), then 4 follow-up requests", "preemption_bound": bound, "bound_completed_without_cap": r.get("bound_completed", bound), "capped": r.get("capped", False),
                "executions": r["executions"], "distinct_outcomes": len(r["outcomes"]), "branching_points": r["max_points"]})
    rep.cov["schedules"] = r["executions"]
    depth = 5 if tier == "thorough" else 4
    tot = monitors.run_models(rep, models(tier), depth, dedup_depth_plain=max(2, depth - 2), time_cap=900 if tier == "thorough" else 100)
    nsweep = 0
    for n, nreq, vs in common.pmap(sweep_class, list(range(n_request_classes())), chunksize=1):
        nsweep += n
        rep.extend(vs)
    rep.sample({"sweep": "every typed request class x {complete, each single required attribute removed, each pair, all}", "requests_sent": nsweep})
    rep.cov.update({"states": tot["states"], "transitions": tot["transitions"], "traces_validated_against_impl": tot["transitions"] + tot["plain_transitions"] + nsweep,
                    "max_depth": tot["max_depth"], "states_without_dedup": tot["plain_states"], "sweep_requests": nsweep,
                    "explanation": "BFS over histories on 3 configurations (1..3 applications, same id on different peers, additional realm, peer in "
                                   "another realm, raising handler) with request variants application id {registered, other app, unregistered} x realm "
                                   "{own, additional, foreign} x {complete, missing AVP} from configured / not configured peers, interleaved with "
                                   "DWR/DWA/DPR and application answers; the routing monitor recomputes the decision from the configuration; plus an "
                                   "exhaustive sweep of required-attribute subsets over all typed request classes"})
    return rep.finish()


def replay(case):
    if "class" in case:
        msgs, conts = c03.all_classes()
        reqs = [c for c in msgs if c.__name__.endswith("Request") and c.__name__ not in
                ("CapabilitiesExchangeRequest", "DeviceWatchdogRequest", "DisconnectPeerRequest")]
        for i, c in enumerate(reqs):
            if c.__name__ == case["class"]:
                return sweep_class(i)[2]
        return []
    if "sched" in case:
        import functools
        from .. import scheddfs
        obs_vs, ch = scheddfs.replay_choices(functools.partial(sched_execute, case["sched"]), case["choices"])
        return [Violation(k, d) for k, d in sched_check(obs_vs)]
    hist = tuple(tuple(e) for e in case["history"])
    for m in models("thorough"):
        if m.name == case["model"]:
            out = []
            for k in range(1, len(hist) + 1):
                r = m.build(hist[:k])
                if r is not None:
                    out += [Violation(key, d) for key, d in r[1]]
            return out
    return []
