"""C09 - application answers go only to the requesting connection, at most once."""
from __future__ import annotations

import functools

from .. import common, env, monitors, scenario, scheddfs, simkernel as sk
from ..common import Report, Violation

MONS = [monitors.AnswerRouteMonitor, monitors.AnswerMonitor]
BASE = {
    "node": {"ips": ["10.0.0.1"], "tcp_port": 3868, "cer_timeout": 5, "cea_timeout": 5, "idle_timeout": 60, "dwa_timeout": 5, "wakeup": 2},
    "peers": [{"name": "peer1.example.org"}, {"name": "peer2.example.org"}, {"name": "peer3.example.org"}],
    "apps": [{"id": env.APP_ACCT, "acct": True, "peers": [0, 1, 2]}],
}


class InlineSecondAnswerMonitor(monitors.Monitor):
    """The second of two answers submitted inline by handle_request must fail with the not-routable error."""

    def step(self):
        vs = []
        for rec in self.new_records():
            if rec[1] == "inline_second_answer" and rec[2] != "NotRoutable":
                vs.append((f"answer-route:second-inline-answer-not-refused-with-NotRoutable:{rec[2]}", f"second send_answer inside handle_request: {rec[2]}"))
        return vs


def models(tier):
    out = []
    # two peers connected; equal hop-by-hop ids on both connections; loss / DPR / reconnection between request and answer
    alpha = []
    for c in (0, 1):
        alpha += [("m", c, "rh:1"), ("m", c, "rh:2"), ("eof", c), ("m", c, "dpr")]
    alpha += [("ans", 0), ("ans", 1), ("ans", 2), ("ans", 3), ("ans2", 0), ("ans2", 1), ("ansnr", 0), ("ansnr", 1), ("accept",), ("m", 2, "cer_p0"), ("m", 2, "rh:1")]
    out.append(monitors.ScenarioModel("two-peers-equal-hop-by-hop-ids", BASE, alpha, MONS, max_socks=3,
                                      prelude=[("accept",), ("m", 0, "cer_p0"), ("accept",), ("m", 1, "cer_p1")]))
    # three peers
    alpha3 = []
    for c in (0, 1, 2):
        alpha3 += [("m", c, "rh:1"), ("eof", c)]
    alpha3 += [("ans", 0), ("ans", 1), ("ans", 2), ("ans2", 0), ("m", 0, "dpr"), ("rst", 1)]
    out.append(monitors.ScenarioModel("three-peers", BASE, alpha3, MONS, max_socks=3,
                                      prelude=[("accept",), ("m", 0, "cer_p0"), ("accept",), ("m", 1, "cer_p1"), ("accept",), ("m", 2, "cer_p2")]))
    # one peer reconnecting: the answer to a request of the old connection must not travel on the new one
    alpha1 = [("m", 0, "rh:1"), ("m", 0, "rh:2"), ("eof", 0), ("m", 0, "dpr"), ("accept",), ("m", 1, "cer_p0"), ("m", 1, "rh:1"), ("eof", 1),
              ("ans", 0), ("ans", 1), ("ans", 2), ("ans2", 0), ("ans2", 1), ("tick", 3)]
    out.append(monitors.ScenarioModel("one-peer-reconnecting", BASE, alpha1, MONS, max_socks=2, prelude=[("accept",), ("m", 0, "cer_p0")]))
    # a request whose end-to-end identifier is 0 while the other connection has the same hop-by-hop id pending
    alpha0 = [("m", 1, "rh:1"), ("m", 0, "rh0:1"), ("m", 1, "rh:2"), ("m", 0, "rh:2"), ("ans", 0), ("ans", 1), ("ans", 2), ("ans2", 0), ("ans2", 1), ("eof", 1)]
    out.append(monitors.ScenarioModel("end-to-end-id-zero", BASE, alpha0, MONS, max_socks=2,
                                      prelude=[("accept",), ("m", 0, "cer_p0"), ("accept",), ("m", 1, "cer_p1")]))
    # the requester has a DWR outstanding when it sends its DPR; the late DWA must not make the connection routable again
    import copy
    wd = copy.deepcopy(BASE)
    wd["node"].update({"idle_timeout": 2, "dwa_timeout": 30, "wakeup": 1})
    alphaw = [("m", 0, "rh:1"), ("m", 0, "dpr"), ("m", 0, "dwa"), ("ans", 0), ("ans", 1), ("tick", 1), ("m", 0, "dwr")]
    out.append(monitors.ScenarioModel("requester-awaiting-DWA", wd, alphaw, MONS, max_socks=1,
                                      prelude=[("accept",), ("m", 0, "cer_p0"), ("tick", 3)]))
    # the same peer holds two connections; the one that carried the request is lost before the answer
    alpha2 = [("eof", 0), ("eof", 1), ("m", 0, "dpr"), ("m", 1, "rh:1"), ("m", 1, "rh:2"), ("ans", 0), ("ans", 1), ("ans", 2), ("ans2", 0), ("rst", 0)]
    out.append(monitors.ScenarioModel("one-peer-two-connections", BASE, alpha2, MONS, max_socks=2,
                                      prelude=[("accept",), ("m", 0, "cer_p0"), ("m", 0, "rh:1"), ("m", 0, "rh:2"), ("accept",), ("m", 1, "cer_p0")]))
    # two relays present requests of two origin hosts under the same (hop-by-hop, end-to-end) pair (hop-by-hop ids are unique per
    # connection only, end-to-end ids per origin host only); both are pending at the application at the same time
    alphap = [("m", 0, "rx1:a:0:1"), ("m", 1, "rx1:b:0:1"), ("m", 1, "rx1:b:0:2"), ("ans", 0), ("ans", 1), ("ans", 2), ("ans2", 0), ("eof", 0), ("eof", 1), ("m", 1, "dpr")]
    out.append(monitors.ScenarioModel("two-peers-equal-identifier-pairs", BASE, alphap, [monitors.AnswerRoutePairMonitor, monitors.AnswerMonitor], max_socks=2,
                                      prelude=[("accept",), ("m", 0, "cer_p0"), ("accept",), ("m", 1, "cer_p1")]))
    # the application answers from within handle_request (on the delivering connection's reader thread) and submits a second answer there
    import copy as _copy
    inl = _copy.deepcopy(BASE)
    inl["apps"][0]["behaviour"] = "answer_twice"
    out.append(monitors.ScenarioModel("inline-answer-submitted-twice", inl,
                                      [("m", 0, "rh:1"), ("m", 1, "rh:1"), ("m", 0, "rh:2"), ("b", 0, "rh:1", "rh:2"), ("eof", 0), ("m", 1, "dpr")],
                                      MONS + [InlineSecondAnswerMonitor], max_socks=2,
                                      prelude=[("accept",), ("m", 0, "cer_p0"), ("accept",), ("m", 1, "cer_p1")]))
    # a second deterministic scheduling policy (the I/O thread runs only when nothing else can)
    if True:
        out = monitors.with_io_last(out)
    return out


# ------------------------------------------------------------------ E4: send_answer racing with the loss of the connection
def sched_execute(variant, prefix):
    import diameter.node.node as nn
    sk.install()
    pts = {sk.code_of(nn.Node, "route_answer"): None, sk.code_of(nn.Node, "send_message"): None,
           sk.code_of(nn.Node, "remove_peer_connection"): None, sk.code_of(nn.Node, "close_connection_socket"): None}
    if hasattr(nn.Node, "_remove_peer_connection"):
        pts[sk.code_of(nn.Node, "_remove_peer_connection")] = None
    sk.set_line_points(pts)
    ch = scheddfs.Chooser(prefix)
    sc = scenario.Scenario(BASE, chooser=ch, max_socks=2)
    try:
        nw = sc.start()
        mons = [m(sc) for m in MONS]
        vs = []
        for ev in (("accept",), ("m", 0, "cer_p0"), ("accept",), ("m", 1, "cer_p1"), ("m", 0, "rh:1"), ("m", 1, "rh:1")):
            sc.apply(ev)
            for m in mons:
                vs += m.step()
        app, msg = nw.requests[0]
        res = []

        def answerer():
            try:
                app.send_answer(app.generate_answer(msg, result_code=2001))
                res.append("sent")
            except Exception as e:
                res.append(type(e).__name__)
        s0 = sc.socks[0]
        nw.world.points_on = True
        ch.window = True
        if variant == "eof":
            s0.env_closed = True
            nw.eof(s0.fs, run=False)
        elif variant == "dpr":
            nw.deliver(s0.fs, sc.message(s0, "dpr"), run=False)
        sk.spawn(answerer, "answerer")
        if variant == "double":
            sk.spawn(answerer, "answerer2")      # the application submits the same answer from two threads
        nw.run()
        ch.window = False
        nw.world.points_on = False
        sc.sync()
        sc.apply(("tick", 2))
        # judge directly: the answer to request 0 may appear on socket 0 at most once and nowhere else; only NotRoutable may be raised
        ident = (msg.header.command_code, msg.header.application_id, msg.header.hop_by_hop_identifier, msg.header.end_to_end_identifier)
        on0 = [f for f in sc.socks[0].out if not f.h.is_request and f.h.ident() == ident and f.result_code == 2001]
        on1 = [f for f in sc.socks[1].out if not f.h.is_request and f.h.e2e == ident[3] and f.h.code == ident[0] and f.result_code == 2001]
        if on1:
            vs.append(("answer-route:application-answer-transmitted-on-another-connection", f"{variant}: {on1}"))
        if len(on0) > 1:
            vs.append(("answer-route:application-answer-transmitted-twice", f"{variant}: {on0}"))
        for r0 in res:
            if r0 not in ("sent", "NotRoutable"):
                vs.append((f"answer-route:submission-fails-with-{r0}-instead-of-NotRoutable:racing-with-{variant}", f"{res}"))
        if variant == "double" and sorted(res) != ["NotRoutable", "sent"]:
            vs.append(("answer-route:two-concurrent-submissions-for-one-request-not-exactly-one-accepted", f"outcomes {res}, frames {len(on0)}"))
        for m in mons[1:]:
            vs += m.step()
        fails = nw.thread_failures()
        obs = (variant, tuple(res), len(on0), len(on1), tuple(sorted(set(k for k, d in vs))), tuple(fails))
        return (obs, tuple(vs)), ch
    finally:
        sc.close()


def sched_execute_dwr(prefix):
    """A request is with the application; the connection's idle time-out expires in the instant in which the peer's DPR arrives: the I/O
    thread sending the watchdog request (line granularity in send_dwr / reset_last_dwr) against the reader thread handling the DPR.
    Whatever the order, the DPR has been received afterwards: the held answer must be refused and nothing transmitted."""
    import copy as _copy
    import diameter.node.node as nn
    import diameter.node.peer as pp
    sk.install()
    pts = {sk.code_of(nn.Node, "send_dwr"): None, sk.code_of(nn.Node, "receive_dpr"): None,
           sk.code_of(pp.PeerConnection, "reset_last_dwr"): None}
    sk.set_line_points(pts)
    ch = scheddfs.Chooser(prefix)
    cfg = _copy.deepcopy(BASE)
    cfg["node"].update({"idle_timeout": 2, "dwa_timeout": 30, "wakeup": 1})
    sc = scenario.Scenario(cfg, chooser=ch, max_socks=1)
    try:
        nw = sc.start()
        mons = [m(sc) for m in MONS]
        vs = []
        for ev in (("accept",), ("m", 0, "cer_p0"), ("m", 0, "rh:1")):
            sc.apply(ev)
            for m in mons:
                vs += m.step()
        app, msg = nw.requests[0]
        s0 = sc.socks[0]
        nw.world.jump(3)
        nw.world.points_on = True
        ch.window = True
        nw.deliver(s0.fs, sc.message(s0, "dpr"), run=False)
        nw.run()
        ch.window = False
        nw.world.points_on = False
        sc.sync()
        res = []

        def answerer():
            try:
                app.send_answer(app.generate_answer(msg, result_code=2001))
                res.append("sent")
            except Exception as e:
                res.append(type(e).__name__)
        sk.spawn(answerer, "answerer")
        nw.run()
        sc.sync()
        sc.apply(("tick", 1))
        ident = (msg.header.command_code, msg.header.application_id, msg.header.hop_by_hop_identifier, msg.header.end_to_end_identifier)
        on0 = [f for f in s0.out if not f.h.is_request and f.h.ident() == ident and f.result_code == 2001]
        dpa = [f for f in s0.out if not f.h.is_request and f.h.code == 282]
        if dpa and (res != ["NotRoutable"] or on0):
            vs.append(("answer-route:answer-accepted-after-the-requester's-DPR-was-answered:idle-time-out-in-the-same-instant", f"outcome {res}, answer frames {on0}"))
        for r0 in res:
            if r0 not in ("sent", "NotRoutable"):
                vs.append((f"answer-route:submission-fails-with-{r0}-instead-of-NotRoutable:after-dwr-vs-dpr", f"{res}"))
        fails = nw.thread_failures()
        obs = ("dwr-dpr", tuple(res), len(on0), len(dpa), tuple(sorted(set(k for k, d in vs))), tuple(fails))
        return (obs, tuple(vs)), ch
    finally:
        sc.close()


def sched_check(obs_vs):
    obs, vs = obs_vs
    return [(k + ":under-some-schedule", d) for k, d in vs]


def run(tier):
    rep = Report("C09", tier, "model_checking")
    common.pool()
    bound = 2 if tier == "thorough" else 1
    sched = 0
    tasks = [(functools.partial(sched_execute, v), sched_check, bound) for v in ("eof", "dpr", "double")] + [(sched_execute_dwr, sched_check, bound)]
    for v, r in zip(("eof", "dpr", "double", "dwr-dpr"), (scheddfs.explore_many(tasks) if tier != "thorough" else scheddfs.explore_many_capped(tasks, 1, 600))):
        sched += r["executions"]
        for (key, detail), choices in r["violations"]:
            rep.add(Violation(key, f"[send_answer racing with {v}, bound {bound}] choices {choices}: {detail}", {"sched": v, "choices": choices}))
        rep.sample({"schedule_exploration": f"send_answer in its own thread vs the I/O thread handling {v}", "preemption_bound": bound, "bound_completed_without_cap": r.get("bound_completed", bound), "capped": r.get("capped", False),
                    "executions": r["executions"], "distinct_outcomes": len(r["outcomes"]), "branching_points": r["max_points"]})
    depth = 6 if tier == "thorough" else 5
    tot = monitors.run_models(rep, models(tier), depth, dedup_depth_plain=depth - 2, time_cap=1500 if tier == "thorough" else 110)
    # the same monitors on SCTP connections (accept / sctp_send / close branches of the node)
    t_sctp = monitors.run_models(rep, monitors.sctp_copies(models(tier), ('two-peers-equal-hop-by-hop-ids', 'one-peer-reconnecting')), depth - 1, time_cap=400 if tier == "thorough" else 25)
    monitors.merge_tot(tot, t_sctp)
    rep.cov.update({"states": tot["states"], "transitions": tot["transitions"], "traces_validated_against_impl": tot["transitions"] + tot["plain_transitions"] + sched,
                    "max_depth": tot["max_depth"], "states_without_dedup": tot["plain_states"], "schedules": sched,
                    "explanation": "BFS over histories of 1..3 peers sending requests with hop-by-hop ids from a pool of 2 (equal ids on different "
                                   "connections), answers submitted in every order and twice, with eof / reset / DPR / reconnection of the requester between "
                                   "arrival and submission; plus schedule exploration of send_answer racing with the loss of the connection"})
    rep.assumptions += ["end-to-end ids are unique per request (frames are attributed by them); hop-by-hop ids collide across connections"]
    return rep.finish()


def replay(case):
    if "sched" in case:
        import functools
        from .. import scheddfs
        ex = sched_execute_dwr if case["sched"] == "dwr-dpr" else functools.partial(sched_execute, case["sched"])
        obs_vs, ch = scheddfs.replay_choices(ex, case["choices"])
        return [Violation(k, d) for k, d in sched_check(obs_vs)]
    hist = tuple(tuple(e) for e in case["history"])
    for m in models("thorough"):
        if m.name == case["model"]:
            out = []
            for k in range(1, len(hist) + 1):
                r = m.build(hist[:k])
                if r is not None:
                    out += [Violation(key, d) for key, d in r[1]]
            return out
    return []
