"""C10 - requests go only to eligible ready peers; answers return to their sender.

Part A (exhaustive over configurations): every vector of per-peer connection states x default-peer
flags x selection callback, one send_request per (application, realm), judged against an
eligibility set computed from the configuration.
Part B (E4): 2..3 callers in send_request concurrently, the peer answering in every order, late,
twice or with unknown identifiers, every schedule within the preemption bound at line granularity.
"""
from __future__ import annotations

import functools
import itertools

from .. import common, env, refcodec as rc, scenario, scheddfs, simkernel as sk
from ..common import Report, Violation

STATES = ("none", "connected", "ready", "waiting_dwa", "disconnecting")
REALM2 = "realm2.example"
REALM3 = "realm3.example"


def cfg_for(states, defaults, nodelay=False, peer3_realm=None):
    peers = []
    for i, st in enumerate(states):
        pc = {"name": f"peer{i + 1}.example.org", "ips": [f"10.1.0.{i + 1}"], "persistent": True, "reconnect_wait": 600,
              "realm": env.NODE_REALM if (i != 2 or peer3_realm is None) else peer3_realm, "default": bool(defaults[i])}
        if st == "waiting_dwa":
            pc["idle_timeout"] = 2
        peers.append(pc)
    extra_apps = []
    if peer3_realm is not None:
        # peers from two realms *and* an additional realm in one add_application call
        extra_apps = [{"id": 7, "auth": True, "peers": [0, 2], "realms": [REALM3]}]
    return {"node": {"ips": [], "tcp_port": None, "cer_timeout": 600, "cea_timeout": 600, "idle_timeout": 600, "dwa_timeout": 600, "wakeup": 1},
            "peers": peers, "_extra_apps": extra_apps,
            "apps": [{"id": 3, "acct": True, "peers": [0, 1, 2]},       # A0: all three peers, own realm
                     {"id": 4, "auth": True, "peers": [2], "realms": [REALM2, REALM3]},   # A1: peer 3, own realm + two additional realms
                     {"id": 5, "auth": True, "peers": []},              # A2: no peers of its own: default peers only
                     {"id": 3, "acct": True, "peers": [0]},             # A3: a second instance of A0's application id, peer 1 only
                     {"id": 6, "auth": True, "peers": [0], "realms": [REALM2]}] + extra_apps}  # A4: peer 1, own realm + the first additional realm only


def eligible(cfg, app_i, realm):
    """(configured for (app, realm), default peers of the realm) as sets of peer indexes."""
    a = cfg["apps"][app_i]
    conf = {pi for pi in a.get("peers", []) if realm in ({cfg["peers"][pi].get("realm", env.NODE_REALM)} | set(a.get("realms", [])))}
    dflt = {i for i, pc in enumerate(cfg["peers"]) if pc.get("default") and pc.get("realm", env.NODE_REALM) == realm}
    return conf, dflt


def bring_up(sc, states):
    """Drive every dialled connection into its target state; returns the env socket per peer index."""
    nw = sc.nw
    by_peer = {}
    for s in sc.socks:
        for i, pc in enumerate(sc.cfg["peers"]):
            if s.host == pc["name"]:
                by_peer[i] = s
    for i, st in enumerate(states):
        s = by_peer[i]
        if st in ("ready", "waiting_dwa", "disconnecting"):
            if not sc.apply(("m", s.idx, "cea_ok")):
                raise sk.HarnessError("set-up: cannot send CEA")
        elif st == "none":
            sc.apply(("m", s.idx, "cea_3xxx"))
    if "waiting_dwa" in states:
        sc.apply(("tick", 3))
    for i, st in enumerate(states):
        if st == "disconnecting":
            sc.apply(("m", by_peer[i].idx, "dpr"))
    return by_peer


def work_config(args):
    states, defaults, use_cb = args[:3]
    peer3_realm = args[3] if len(args) > 3 else None      # the third peer belongs to another realm than the first two
    cfg = cfg_for(states, defaults, peer3_realm=peer3_realm)
    sc = scenario.Scenario(cfg, max_socks=8, start_plan=["ok"] * len(states), app_timeout=1)
    out = []
    n = 0
    try:
        nw = sc.start()
        by_peer = bring_up(sc, states)
        ready_gt = {i for i, st in enumerate(states) if st in ("ready", "waiting_dwa")}
        calls = []
        if use_cb:
            def cb(node, app, message, peers):
                calls.append([p.node_name for p in peers])
                return peers[-1]
            nw.node.peer_route_select_func = cb
        sends = list(itertools.product(range(len(cfg["apps"])), ("own", "r2", "r3", "foreign")))
        # ... and requests that name one of the configured peers in Destination-Host (which does not widen what is eligible)
        sends += [(a, f"{rk}>{k}") for a in range(len(cfg["apps"])) for rk in ("own", "r2") for k in range(len(states))]
        for app_i, realmkey in sends:
            realm = {"own": env.NODE_REALM, "r2": REALM2, "r3": REALM3, "foreign": "nowhere.example"}[realmkey.split(">")[0]]
            n += 1
            before = {i: len(s.out) for i, s in by_peer.items()}
            ncalls = len(calls)
            k = len(sc.send_results)
            sc.apply(("send", app_i, realmkey))
            res = sc.send_results[k]
            wrote = {i: [f for f in s.out[before[i]:] if f.h.is_request and f.h.code not in (257, 280, 282)] for i, s in by_peer.items()}
            targets = [i for i, fr in wrote.items() if fr]
            conf, dflt = eligible(cfg, app_i, realm)
            case = {"states": list(states), "defaults": list(defaults), "callback": use_cb, "app": app_i, "realm": realmkey, "peer3_realm": peer3_realm}
            desc = f"{case}: outcome {res[2]}, request written to peers {targets}; configured {sorted(conf)} default {sorted(dflt)} ready {sorted(ready_gt)}"
            if len(targets) > 1 or any(len(fr) > 1 for fr in wrote.values()):
                out.append(Violation("route-request:request-written-more-than-once", desc, case))
            for t in targets:
                if t not in conf | dflt:
                    out.append(Violation("route-request:sent-to-a-peer-that-is-neither-configured-nor-default-for-the-realm", desc, case))
                elif t not in ready_gt:
                    out.append(Violation(f"route-request:sent-to-a-peer-whose-connection-is-{states[t]}", desc, case))
                f = wrote[t][0]
                if f.h.hbh == 0:
                    out.append(Violation("route-request:zero-hop-by-hop-identifier", desc, case))
            any_ok = (conf | dflt) & ready_gt
            must_send = (conf & ready_gt) or (set() if conf else dflt & ready_gt)
            if not any_ok:
                if res[2] != "NotRoutable" or targets:
                    out.append(Violation("route-request:no-eligible-ready-peer-but-not-NotRoutable", desc, case))
            elif must_send and not targets:
                out.append(Violation(f"route-request:eligible-ready-peer-exists-but-nothing-sent:{res[2]}", desc, case))
            if res[2] == "NotRoutable" and targets:
                out.append(Violation("route-request:NotRoutable-raised-but-bytes-were-written", desc, case))
            if use_cb and len(calls) > ncalls:
                cand = calls[-1]
                idx = [next(i for i, pc in enumerate(cfg["peers"]) if pc["name"] == nm) for nm in cand]
                if not set(idx) <= (conf | dflt) & ready_gt:
                    out.append(Violation("route-request:selection-callback-offered-ineligible-or-unready-peers", desc + f" candidates {cand}", case))
                if targets and targets != [idx[-1]]:
                    out.append(Violation("route-request:request-not-sent-to-the-callback's-pick", desc + f" candidates {cand}", case))
            # let the caller time out so that the next send starts clean
            sc.apply(("tick", 2))
        fails = nw.thread_failures()
        if fails:
            out.append(Violation("route-request:thread-died", f"{fails}", {"states": list(states)}))
        return n, out
    except sk.Livelock as e:
        return n, [Violation("livelock:node-threads-never-reach-quiescence", f"{states} {defaults}: {e}", {"states": list(states)})]
    finally:
        sc.close()


# ------------------------------------------------------------------ part B: concurrency
CFG_B = {
    "node": {"ips": ["10.0.0.1"], "tcp_port": 3868, "idle_timeout": 600, "dwa_timeout": 600, "wakeup": 1},
    "peers": [{"name": "peer1.example.org"}, {"name": "peer2.example.org"}],
    "apps": [{"id": 3, "acct": True, "peers": [0, 1]}, {"id": 4, "auth": True, "peers": [0]}],
}


CFG_B2 = {
    "node": {"ips": ["10.0.0.1"], "tcp_port": 3868, "idle_timeout": 600, "dwa_timeout": 600, "wakeup": 1},
    "peers": [{"name": "peer1.example.org"}, {"name": "peer2.example.org"}],
    "apps": [{"id": 3, "acct": True, "peers": [0]}, {"id": 4, "auth": True, "peers": [1]}],     # one application per connection
}


CFG_B3 = {
    "node": {"ips": ["10.0.0.1"], "tcp_port": 3868, "idle_timeout": 600, "dwa_timeout": 600, "wakeup": 1},
    "peers": [{"name": "peer1.example.org"}, {"name": "peer2.example.org"}],
    "apps": [{"id": 3, "acct": True, "peers": [0]}, {"id": 3, "acct": True, "peers": [1]}],     # two instances of one application id
}


CFG_B4 = {
    "node": {"ips": ["10.0.0.1"], "tcp_port": 3868, "idle_timeout": 600, "dwa_timeout": 600, "wakeup": 1},
    "peers": [{"name": "peer1.example.org", "default": True}, {"name": "peer2.example.org"}],
    "apps": [{"id": 3, "acct": True, "peers": []}, {"id": 4, "auth": True, "peers": [1]}],     # application 0 has no peers of its own: default peer only
}


def _set_points():
    import diameter.node.node as nn
    import diameter.node.application as aa
    import diameter.node._helpers as hh
    sk.install()
    sk.set_line_points({sk.code_of(nn.Node, "route_request"): None, sk.code_of(aa.Application, "send_request"): None,
                        sk.code_of(aa.Application, "receive_answer"): None, sk.code_of(nn.Node, "_receive_app_answer"): None,
                        sk.code_of(hh.SequenceGenerator, "next_sequence"): None})


def execute_b(variant, prefix):
    """variant = (callers: tuple of app indexes, answer script, same_start)"""
    callers, script, same_start = variant
    _set_points()
    ch = scheddfs.Chooser(prefix)
    # same_start: both connections' hop-by-hop generators start at the same value (equal ids in flight on different connections)
    rand_plan = None
    split = "split" in script
    sc = scenario.Scenario(CFG_B4 if "dflt" in script else (CFG_B3 if "twin" in script else (CFG_B2 if split else CFG_B)), chooser=ch, max_socks=2, app_timeout=2,
                           rand_plan=[0x10, 0x20, 0x5000, 0x5000] if same_start else None)
    try:
        nw = sc.start()
        for ev in (("accept",), ("m", 0, "cer_p0"), ("accept",), ("m", 1, "cer_p1")):
            sc.apply(ev)
        n0 = [len(s.out) for s in sc.socks]
        if "auto" in script:
            # a peer that answers the moment a request reaches its socket (the answer may overtake the caller's bookkeeping)
            def reactive(fs, chunk, buf={}):
                b = buf.get(fs.sid, b"") + chunk
                raws, rest = rc.split_frames(b)
                buf[fs.sid] = rest
                for raw in raws:
                    f = rc.Frame(raw)
                    if f.h.is_request and f.h.code == 271:
                        fs.rbuf += env.aca(host="peer1.example.org", app=f.h.app, hbh=f.h.hbh, e2e=f.h.e2e)
                        nw.world.obs("env_deliver", fs.sid, b"")
            for s_ in sc.socks:
                s_.fs.on_sent = functools.partial(reactive, buf={})
        nw.world.points_on = True
        ch.window = True
        for a in callers:
            sc.spawn_send(a, "own")
        nw.run()
        sc.sync()
        # the requests are on the wire: collect them per socket
        reqs = []
        for si, s in enumerate(sc.socks):
            for f in s.out[n0[si]:]:
                if f.h.is_request and f.h.code not in (257, 280, 282):
                    reqs.append((si, f))
        late = []
        unknown_sent = False
        # answers according to the script: a permutation index + decorations
        order = list(range(len(reqs)))
        if script.startswith("rev"):
            order.reverse()
        deliveries = []
        for k in ([] if "auto" in script else order):
            si, f = reqs[k]
            ans = env.aca(host=sc.socks[si].host, app=f.h.app, hbh=f.h.hbh, e2e=f.h.e2e) if f.h.code == 271 else \
                rc.enc_msg(f.h.code, 0x40, f.h.app, f.h.hbh, f.h.e2e, [rc.utf8(263, "s"), rc.u32(268, 2001), rc.octets(264, sc.socks[si].host.encode(), 0),
                                                                     rc.octets(296, b"example.org", 0), rc.u32(258, f.h.app), rc.u32(416, 1), rc.u32(415, 0)])
            if "late" in script and k == order[0]:
                late.append((si, ans))
                continue
            deliveries.append((si, ans))
            if "dup" in script and k == order[0]:
                deliveries.append((si, ans))
        if "unknown" in script:
            deliveries.insert(0, (0, env.aca(host=sc.socks[0].host, app=3, hbh=0x7777, e2e=0x8888)))
        if "cross" in script and len(reqs) >= 1:
            # the right identifiers arriving on the *other* connection
            si, f = reqs[0]
            deliveries.insert(0, (1 - si, env.aca(host=sc.socks[1 - si].host, app=f.h.app, hbh=f.h.hbh, e2e=f.h.e2e)))
        for si, data in deliveries:
            nw.deliver(sc.socks[si].fs, data, run=False)
        nw.run()
        ch.window = False
        nw.world.points_on = False
        nw.world.advance(3)
        for si, data in late:
            nw.deliver(sc.socks[si].fs, data)
        nw.world.advance(1)
        sc.sync()
        handle = [r[2:] for r in nw.world.log if r[1] == "handle_answer"]
        results = tuple(tuple(map(lambda x: tuple(x) if isinstance(x, list) else x, r)) for r in sc.send_results)
        obs = (variant, tuple((si, f.h.app, f.h.hbh, f.h.e2e) for si, f in reqs), results, tuple(handle), tuple(nw.thread_failures()))
        return obs, ch
    except sk.Livelock as e:
        return (variant, "livelock", str(e)), ch
    finally:
        sc.close()


def check_b(obs):
    if obs[1] == "livelock":
        return [("livelock:node-threads-never-reach-quiescence", obs[2])]
    variant, reqs, results, handle, fails = obs
    callers, script, same_start = variant
    vs = []
    if len(reqs) != len(callers):
        vs.append(("send-request:not-every-request-reached-the-wire-exactly-once", f"{variant}: on the wire {reqs}, results {results}"))
    per_sock = {}
    for si, app, hbh, e2e in reqs:
        if hbh == 0:
            vs.append(("send-request:zero-hop-by-hop-identifier", f"{variant}: {reqs}"))
        per_sock.setdefault(si, []).append(hbh)
    for si, hs in per_sock.items():
        if len(set(hs)) != len(hs):
            vs.append(("send-request:hop-by-hop-identifier-not-unique-among-outstanding-requests-on-one-connection", f"{variant}: {reqs}"))
    e2es = [e for _, _, _, e in reqs]
    if len(set(e2es)) != len(e2es):
        vs.append(("send-request:end-to-end-identifier-reused", f"{variant}: {reqs}"))
    # every caller: the answer bearing its own identifiers, or a timeout
    first_late = "late" in script
    for r in results:
        app_i, realmkey, outcome, ans_ids = r[0], r[1], r[2], r[3]
        own = r[4] if len(r) > 4 else None
        if outcome == "answer":
            if ans_ids != own:
                vs.append(("send-request:caller-received-an-answer-with-foreign-identifiers", f"{variant}: caller sent {own}, got {ans_ids}"))
        elif outcome == "TimeoutError":
            if not first_late and "cross" not in script:
                vs.append(("send-request:caller-timed-out-although-its-answer-arrived-in-time", f"{variant}: results {results}, on the wire {reqs}"))
        elif outcome == "pending":
            vs.append(("send-request:caller-never-returned", f"{variant}: {results}"))
        else:
            vs.append((f"send-request:unexpected-exception-{outcome}", f"{variant}: {results}"))
    if first_late and sum(1 for r in results if r[2] == "TimeoutError") != 1:
        vs.append(("send-request:late-answer-scenario-must-time-out-exactly-one-caller", f"{variant}: {results}"))
    # unexpected answers: only the application that sent the request may see them (or nobody)
    sent_by = {(hbh, e2e): app for si, app, hbh, e2e in reqs}
    sent_idx = {tuple(r[4]): r[0] for r in results if len(r) > 4 and r[4]}       # identifiers each caller's request left with -> index of its application
    appids = {0: 3, 1: 4} if "twin" not in script else {0: 3, 1: 3}
    for app_i, hbh, e2e in handle:
        owner = sent_by.get((hbh, e2e))
        if owner is None:
            vs.append(("unexpected-answer:answer-with-unknown-identifiers-shown-to-an-application", f"{variant}: handle_answer({app_i}, {hbh:#x}, {e2e:#x})"))
        elif owner != appids[app_i] or sent_idx.get((hbh, e2e), app_i) != app_i:
            vs.append(("unexpected-answer:delivered-to-another-application-than-the-sender",
                       f"{variant}: request of application {sent_idx.get((hbh, e2e))} (id {owner}) shown to application {app_i}"))
    # an answer that arrives after its sender has given up is an answer nobody waits for: it is passed to the unexpected-answer
    # handler of the application that sent the request
    if first_late:
        timed_out = [r for r in results if r[2] == "TimeoutError" and len(r) > 4 and r[4]]
        for r in timed_out:
            if not any((hbh, e2e) == tuple(r[4]) and app_i == r[0] for app_i, hbh, e2e in handle):
                vs.append(("unexpected-answer:late-answer-not-passed-to-the-sender's-handle_answer",
                           f"{variant}: request {tuple(r[4])} of application {r[0]} timed out, its answer arrived 3 s later; handle_answer calls: {handle}"))
    if fails:
        vs.append(("send-request:thread-died", f"{variant}: {fails}"))
    return vs


def variants_b(tier):
    out = []
    scripts = ["fwd", "rev", "fwd-dup", "rev-late", "fwd-unknown", "rev-dup-unknown", "fwd-cross", "auto"]
    if tier != "thorough":
        scripts = ["rev", "fwd-dup", "rev-late", "rev-dup-unknown", "fwd-cross", "auto"]
    for script in scripts:
        out.append((((0, 0), script, False), 1 if tier != "thorough" else 2))
    out.append((((0, 1), "rev-dup", False), 1 if tier != "thorough" else 2))         # two applications, one peer in common
    out.append((((0, 0), "rev", True), 1 if tier != "thorough" else 2))              # equal generator start values on both connections
    out.append((((0, 1), "fwd-split", True), 1 if tier != "thorough" else 2))        # two applications on two connections, equal hop-by-hop ids in flight
    if tier == "thorough":      # (the quick tier explores the same shape with two instances of one application id instead: rev-dup-twin)
        out.append((((0, 1), "rev-dup-split", True), 2))
    out.append((((0, 1), "rev-dup-twin", False), 1 if tier != "thorough" else 2))    # two instances of one application id, one connection each
    out.append((((1, 1), "fwd-late-twin", False), 1 if tier != "thorough" else 2))
    out.append((((0, 0), "rev-dup-dflt", False), 0 if tier != "thorough" else 1))     # requests routed through the realm's default peer
    out.append((((0,), "fwd-late-dflt", False), 0 if tier != "thorough" else 1))
    if tier == "thorough":
        out.append((((0, 0, 1), "rev-late", False), 1))
        out.append((((0, 0, 0), "fwd-dup", True), 1))
    else:
        out.append((((0, 0, 1), "rev-late", False), 0))      # three callers: default schedule only in the quick tier
    return out


def dynamic_models(tier):
    """Part C: the set of ready connections changes between two send_requests (DPR, loss, watchdog, reconnection)."""
    from .. import monitors
    cfg = {"node": {"ips": ["10.0.0.1"], "tcp_port": 3868, "cer_timeout": 9, "cea_timeout": 9, "idle_timeout": 2, "dwa_timeout": 2, "wakeup": 1},
           "peers": [{"name": "peer1.example.org"}, {"name": "peer2.example.org"}, {"name": "peer3.example.org", "default": True}],
           "apps": [{"id": 3, "acct": True, "peers": [0, 1]}, {"id": 5, "auth": True, "peers": []}]}
    alpha = [("send", 0, "own"), ("send", 1, "own"), ("tick", 1)]
    for c in (0, 1, 2):
        alpha += [("m", c, "dpr"), ("eof", c), ("m", c, "dwa"), ("m", c, "dwr")]
    alpha += [("accept",), ("m", 3, "cer_p0")]
    mons = [monitors.RequestTargetMonitor, monitors.AnswerMonitor]
    pre = [("accept",), ("m", 0, "cer_p0"), ("accept",), ("m", 1, "cer_p1"), ("accept",), ("m", 2, "cer_p2")]
    out = [monitors.ScenarioModel("three-ready-peers-changing-state", cfg, alpha, mons, max_socks=4, prelude=pre, app_timeout=1)]
    # all three connections have a watchdog request outstanding: DPR / DWA / loss in every order, then sends
    alpha2 = [("send", 0, "own"), ("send", 1, "own")]
    for c in (0, 1, 2):
        alpha2 += [("m", c, "dpr"), ("m", c, "dwa"), ("eof", c)]
    out.append(monitors.ScenarioModel("three-peers-awaiting-their-DWA", dict(cfg, node=dict(cfg["node"], dwa_timeout=30)), alpha2, mons, max_socks=3,
                                      prelude=pre + [("tick", 3)], app_timeout=1))
    return out


def run(tier):
    rep = Report("C10", tier, "model_checking")
    common.pool()
    from .. import monitors
    totc = monitors.run_models(rep, dynamic_models(tier), 5 if tier == "thorough" else 4, dedup_depth_plain=2, time_cap=900 if tier == "thorough" else 100)
    import time as _t
    t_c = _t.time() - rep.t0
    rep.cov["part_C_states"] = totc["states"]
    rep.cov["part_C_transitions"] = totc["transitions"]
    # part A
    jobs = []
    state_vectors = list(itertools.product(STATES, repeat=3))
    for states in state_vectors:
        for defaults in ((0, 0, 0), (0, 1, 0), (0, 0, 1), (1, 1, 1)):
            for use_cb in (False, True):
                if tier != "thorough" and (hash((states, defaults)) + common.seed()) % 2 and use_cb:
                    continue
                jobs.append((states, defaults, use_cb))
    # the same with the third peer in another realm (one add_application call then spans two realms)
    for states in itertools.product(("none", "ready", "disconnecting") if tier != "thorough" else STATES, repeat=3):
        for defaults in ((0, 0, 0), (0, 0, 1)):
            for use_cb in (False, True):
                if tier != "thorough" and (hash((states, defaults)) + common.seed()) % 2 != int(use_cb):
                    continue
                jobs.append((states, defaults, use_cb, REALM2))
    total = 0
    for n, vs in common.pmap(work_config, jobs, chunksize=2):
        total += n
        rep.extend(vs)
    rep.sample({"part": "A", "configurations": len(jobs), "send_requests": total,
                "example": {"states": ["ready", "waiting_dwa", "none"], "defaults": [0, 1, 0], "callback": True}})
    t_a = _t.time() - rep.t0 - t_c
    # part B
    vb = variants_b(tier)
    tasks = [(functools.partial(execute_b, v), check_b, b) for v, b in vb]
    execs = 0
    outcomes = 0
    for (v, b), r in zip(vb, (scheddfs.explore_many(tasks) if tier != "thorough" else scheddfs.explore_many_capped(tasks, 1, 1500))):
        execs += r["executions"]
        outcomes += len(r["outcomes"])
        for (key, detail), choices in r["violations"]:
            rep.add(Violation(key, f"[callers {v[0]} script {v[1]} same-start {v[2]} bound {b}] schedule {choices}: {detail}",
                              {"variant": [list(v[0]), v[1], v[2]], "choices": choices}))
        rep.sample({"part": "B", "callers(apps)": v[0], "answer_script": v[1], "equal_generator_start": v[2], "preemption_bound": b, "bound_completed_without_cap": r.get("bound_completed", b), "capped": r.get("capped", False),
                    "executions": r["executions"], "distinct_outcomes": len(r["outcomes"]), "branching_points": r["max_points"]}, 30)
    rep.cov["wall_by_part_s"] = {"C": round(t_c, 1), "A": round(t_a, 1), "B": round(_t.time() - rep.t0 - t_c - t_a, 1)}
    rep.cov.update({"states": len(jobs) + execs + totc["states"], "transitions": total + execs + totc["transitions"],
                    "traces_validated_against_impl": len(jobs) + execs + totc["transitions"],
                    "schedules": execs, "configurations": len(jobs), "distinct_outcomes_total": outcomes,
                    "explanation": "A: every vector of 3 peers x {none, connected, ready, waiting DWA, disconnecting} x 4 default-peer patterns x {least-used, custom "
                                   "callback} (quick: callback on a VERIF_SEED-rotated half), 20 send_requests (5 applications, two of them instances of one application id, x 4 realms) each, judged against "
                                   "eligibility computed from the configuration. B: 2..3 concurrent send_request callers, answers forward/reverse, duplicated, "
                                   "late, unknown ids, on the wrong connection; every schedule within the preemption bound at line granularity. C: BFS over histories in which "
                                   "three ready peers receive DPR / are lost / await a DWA / reconnect between send_requests; every request written must target a "
                                   "connection that is ready at that moment and eligible"})
    rep.assumptions += ["configured-but-unready peers with a ready default peer: either outcome accepted"]
    return rep.finish()


def replay(case):
    if "states" in case and "defaults" in case:
        n, vs = work_config((tuple(case["states"]), tuple(case["defaults"]), case.get("callback", False), case.get("peer3_realm")))
        return vs
    if "variant" in case:
        v = (tuple(case["variant"][0]), case["variant"][1], case["variant"][2])
        from .c16 import _replay_choices
        obs, ch = _replay_choices(functools.partial(execute_b, v), case["choices"])
        return [Violation(k, d) for k, d in check_b(obs)]
    return []
