"""C11 - watchdog: idle sends one DWR, DWA restores ready, silence closes the connection."""
from __future__ import annotations

import copy

from .. import common, env, monitors
from ..common import Report, Violation

MONS = [monitors.WatchdogMonitor, monitors.AnswerMonitor]


def base(idle, dwa, wakeup):
    return {"node": {"ips": ["10.0.0.1"], "tcp_port": 3868, "cer_timeout": 9, "cea_timeout": 9, "idle_timeout": idle, "dwa_timeout": dwa, "wakeup": wakeup},
            "peers": [{"name": "peer1.example.org"}],
            "apps": [{"id": env.APP_ACCT, "acct": True, "peers": [0]}]}


def models(tier):
    out = []
    alpha = [("tick", 1), ("m", 0, "req"), ("m", 0, "dwr"), ("m", 0, "dwa"), ("mfrag", 0, "req"), ("mtiny", 0, "dwr")]
    dev = {("tick", 1): 0, ("m", 0, "req"): 1, ("m", 0, "dwr"): 1, ("m", 0, "dwa"): 1, ("mfrag", 0, "req"): 1, ("mtiny", 0, "dwr"): 1}
    triples = [(3, 2, 1), (2, 2, 2), (5, 1, 3)]
    overrides = [("none", {}), ("idle", {"idle_timeout": 2}), ("dwa", {"dwa_timeout": 1}), ("both", {"idle_timeout": 4, "dwa_timeout": 3})]
    for idle, dwa, wake in triples:
        for oname, ov in overrides:
            if tier != "thorough" and (idle, dwa, wake) != (3, 2, 1) and oname in ("idle", "dwa"):
                continue
            cfg = base(idle, dwa, wake)
            cfg["peers"][0].update(ov)
            out.append(monitors.ScenarioModel(f"inbound-idle{idle}-dwa{dwa}-wake{wake}-peer:{oname}", cfg, alpha, MONS, max_socks=1,
                                              prelude=[("accept",), ("m", 0, "cer_p0")], deviations=dev))
    for idle, dwa, wake in triples[:1 if tier != "thorough" else 3]:
        for oname, ov in overrides[::3]:
            cfg = base(idle, dwa, wake)
            cfg["peers"][0].update({"ips": ["10.1.0.9"], "persistent": True, "reconnect_wait": 60})
            cfg["peers"][0].update(ov)
            out.append(monitors.ScenarioModel(f"outbound-idle{idle}-dwa{dwa}-wake{wake}-peer:{oname}", cfg, alpha, MONS, max_socks=1,
                                              prelude=[("m", 0, "cea_ok")], deviations=dev, start_plan=["ok"]))
    # the dialled peer answers with its Origin-Host spelt in capitals: still that peer, with that peer's timer settings
    cfg = base(4, 3, 1)
    cfg["peers"][0].update({"ips": ["10.1.0.9"], "persistent": True, "reconnect_wait": 60, "idle_timeout": 2, "dwa_timeout": 1})
    out.append(monitors.ScenarioModel("outbound-peer-name-in-capitals", cfg, alpha, MONS, max_socks=1,
                                      prelude=[("m", 0, "cea_okcase")], deviations=dev, start_plan=["ok"]))
    # second lifetimes: (a) the same inbound peer again after its first connection was lost for another reason; (b) another peer with
    # other timer settings on the next connection, which gets the descriptor the first one had (the OS hands out the lowest free one)
    alpha1 = [(e[0], 1) + tuple(e[2:]) if e[0] != "tick" else e for e in alpha]
    dev1 = {((k[0], 1) + tuple(k[2:]) if k[0] != "tick" else k): v for k, v in dev.items()}
    for first_end in ("eof", "dpr"):
        cfg = base(3, 2, 1)
        cfg["peers"][0].update({"idle_timeout": 2})
        pre = [("accept",), ("m", 0, "cer_p0")] + ([("m", 0, "dpr")] if first_end == "dpr" else []) + [("eof", 0), ("accept",), ("m", 1, "cer_p0")]
        out.append(monitors.ScenarioModel(f"inbound-second-lifetime-after-{first_end}", cfg, alpha1, MONS, max_socks=2, prelude=pre, deviations=dev1))
    cfg = base(4, 2, 1)
    cfg["peers"][0].update({"idle_timeout": 2, "dwa_timeout": 1})
    cfg["peers"].append({"name": "peer2.example.org"})
    cfg["apps"][0]["peers"] = [0, 1]
    out.append(monitors.ScenarioModel("other-peer-on-a-reused-descriptor", cfg, alpha1, MONS, max_socks=2,
                                      prelude=[("accept",), ("m", 0, "cer_p0"), ("tick", 1), ("eof", 0), ("accept",), ("m", 1, "cer_p1")], deviations=dev1))
    # two watchdog requests of the peer in one network read (both must be answered, each with its own identifiers), and the application
    # sending a request of its own between the node's DWR and the peer's DWA (which is still that DWR's answer)
    cfg = base(3, 2, 1)
    alpha3 = [("tick", 1), ("b", 0, "dwr", "dwr"), ("send", 0, "own"), ("m", 0, "dwa"), ("m", 0, "ans"), ("m", 0, "dwr")]
    dev3 = {e: (0 if e == ("tick", 1) else 1) for e in alpha3}
    out.append(monitors.ScenarioModel("bursts-and-own-requests-around-the-watchdog", cfg, alpha3, MONS, max_socks=1,
                                      prelude=[("accept",), ("m", 0, "cer_p0")], deviations=dev3, app_timeout=1))
    # two connections: traffic for the other connection (also more than one recv() worth) reaches the node in the very instant in
    # which this connection's idle timeout or DWA timeout expires, so the timers are looked at in consecutive passes of the I/O loop
    cfg = base(3, 2, 1)
    cfg["peers"].append({"name": "peer2.example.org"})
    cfg["apps"][0]["peers"] = [0, 1]
    alpha2 = [("tick", 1), ("mt", 1, "req_big", 1), ("mt", 1, "dwr", 1), ("m", 1, "dwr"), ("m", 0, "dwa"), ("m", 1, "dwa"), ("m", 0, "dwr")]
    dev2 = {e: (0 if e == ("tick", 1) else 1) for e in alpha2}
    out.append(monitors.ScenarioModel("two-connections-traffic-at-the-expiry-instant", cfg, alpha2, MONS, max_socks=2,
                                      prelude=[("accept",), ("m", 0, "cer_p0"), ("accept",), ("m", 1, "cer_p1")], deviations=dev2))
    # a second deterministic scheduling policy (the I/O thread runs only when nothing else can): thorough tier
    if tier == "thorough":
        out = monitors.with_io_last(out)
    return out


# ------------------------------------------------------------------ E4: DWA handling vs the timer check
def sched_execute(cfgname, prefix):
    """A ready connection awaiting its DWA; the DWA arrives in time.  Every interleaving (bounded) of the reader thread
    handling it and the I/O thread's timer check is explored at line granularity, then time passes."""
    from .. import scenario, scheddfs, simkernel as sk
    import diameter.node.node as nn
    import diameter.node.peer as pp
    sk.install()
    sk.set_line_points({sk.code_of(pp.PeerConnection, "reset_last_dwa"): None, sk.code_of(pp.PeerConnection, "reset_last_dwr"): None,
                        sk.code_of(nn.Node, "_check_timers"): None, sk.code_of(nn.Node, "receive_dwa"): None,
                        sk.code_of(pp.PeerConnection, "dwa_wait_time"): None})
    cfg = base(3, 3, 1)
    ch = scheddfs.Chooser(prefix)
    sc = scenario.Scenario(cfg, chooser=ch, max_socks=1)
    try:
        nw = sc.start()
        mons = [m(sc) for m in MONS]
        vs = []
        for ev in (("accept",), ("m", 0, "cer_p0"), ("tick", 1), ("tick", 1), ("tick", 1), ("tick", 1), ("tick", 1)):
            sc.apply(ev)
            for m in mons:
                vs += m.step()
        s = sc.socks[0]
        if not any(f.h.is_request and f.h.code == 280 for f in s.out):
            raise sk.HarnessError("set-up: no DWR was sent")
        nw.world.points_on = True
        ch.window = True
        sc.apply(("m", 0, "dwa"))
        ch.window = False
        nw.world.points_on = False
        for m in mons:
            vs += m.step()
        for _ in range(2):
            sc.apply(("tick", 1))
            for m in mons:
                vs += m.step()
        conn = nw.conn_of(s.fs)
        if s.fs.closed:
            vs.append(("watchdog:closed-although-the-DWA-arrived-in-time", f"DWR then DWA 1 s later, dwa timeout 3: socket closed, reason {nw.peers[0].disconnect_reason}"))
        obs = (tuple(sorted(set(k for k, d in vs))), s.fs.closed, conn.state if conn else None, tuple(nw.thread_failures()))
        return (obs, tuple(vs)), ch
    finally:
        sc.close()


def sched_check(obs_vs):
    obs, vs = obs_vs
    return [(k + ":under-some-schedule", d) for k, d in vs]


def stuck_output_case(args):
    """The peer stops reading (the node's socket is not writable any more) while an answer of the node is still unsent, then falls
    silent: the idle and DWA timers run all the same - the connection is marked as awaiting a DWA and closed with the watchdog reason.
    Fixed histories over (idle, dwa, wakeup) x when the peer stops reading."""
    from .. import scenario
    idle, dwa, wake, block_at = args
    cfg = base(idle, dwa, wake)
    sc = scenario.Scenario(cfg, max_socks=1)
    vs = []
    try:
        nw = sc.start()
        sc.apply(("accept",))
        sc.apply(("m", 0, "cer_p0"))
        s = sc.socks[0]
        if block_at == "before-dwr":
            s.fs.send_blocked = True
        sc.apply(("m", 0, "dwr"))           # the node's DWA is stuck in its write buffer when the socket is blocked
        if block_at == "after-dwr":
            s.fs.send_blocked = True
        t0 = nw.world.now
        states = []
        closed_at = None
        for sec in range(idle + dwa + 2 * wake + 4):
            sc.apply(("tick", 1))
            conn = nw.conn_of(s.fs)
            states.append(conn.state if conn is not None else None)
            if s.fs.closed and closed_at is None:
                closed_at = nw.world.now - t0
        case = {"stuck": [idle, dwa, wake, block_at]}
        desc = f"(idle {idle}, dwa {dwa}, wakeup {wake}, peer stops reading {block_at}): connection states per second {[hex(x) if x else None for x in states]}, closed after {closed_at} s"
        if 0x13 not in states:
            vs.append(("watchdog:idle-connection-with-unsent-output-never-marked-as-awaiting-DWA", desc, case))
        if closed_at is None:
            vs.append(("watchdog:silent-connection-with-unsent-output-never-closed", desc, case))
        elif nw.peers[0].disconnect_reason != monitors.DISCONNECT_REASON_DWA_TIMEOUT:
            vs.append((f"watchdog:closed-with-reason-{nw.peers[0].disconnect_reason}-instead-of-the-watchdog-reason", desc, case))
        elif closed_at <= idle + dwa:
            vs.append(("watchdog:closed-before-idle-plus-DWA-timeout", desc, case))
        for f in nw.thread_failures():
            vs.append(("watchdog:thread-died", f"{desc}: {f}", case))
        return vs
    finally:
        sc.close()


def run(tier):
    rep = Report("C11", tier, "model_checking")
    common.pool()
    import functools
    from .. import scheddfs
    bound = 2 if tier == "thorough" else 1
    tasks = [(functools.partial(sched_execute, "dwa-vs-timer"), sched_check, bound)]
    r = (scheddfs.explore_many(tasks) if tier != "thorough" else scheddfs.explore_many_capped(tasks, 1, 600))[0]
    for (key, detail), choices in r["violations"]:
        rep.add(Violation(key, f"[DWA handling vs timer check, bound {bound}] choices {choices}: {detail}", {"sched": "dwa", "choices": choices}))
    rep.sample({"schedule_exploration": "DWA arriving while the connection awaits it: reader thread vs I/O thread timer check at line granularity",
                "preemption_bound": bound, "bound_completed_without_cap": r.get("bound_completed", bound), "capped": r.get("capped", False), "executions": r["executions"], "distinct_outcomes": len(r["outcomes"]), "branching_points": r["max_points"]})
    rep.cov["schedules"] = r["executions"]
    stuck = [(i, d, w, b) for i, d, w in ((3, 2, 1), (2, 2, 2), (5, 1, 3)) for b in ("before-dwr", "after-dwr", "never")]
    for vsl in common.pmap(stuck_output_case, stuck, chunksize=1):
        for key, detail, case in vsl:
            rep.add(Violation(key, detail, case))
    rep.cov["stuck_output_histories"] = len(stuck)
    ms = models(tier)
    depth = 26 if tier == "thorough" else 16
    maxdev = 3 if tier == "thorough" else 2
    tot = monitors.run_models(rep, ms, depth, dedup_depth_plain=None, max_deviations=maxdev, time_cap=1500 if tier == "thorough" else 110)
    plain = monitors.run_models(rep, ms[:2], 6, dedup_depth_plain=None, max_deviations=None, time_cap=100)
    # the watchdog on SCTP connections (an inbound and an outbound model; DWR / DWA leave through sctp_send)
    sm = monitors.sctp_copies([m for m in ms if "/io-thread-last" not in m.name])
    sm = [m for m in sm if m.name.startswith("inbound-")][:1] + [m for m in sm if m.name.startswith("outbound-")][:1]
    t3 = monitors.run_models(rep, sm, depth - 4, dedup_depth_plain=None, max_deviations=maxdev, time_cap=400 if tier == "thorough" else 30)
    monitors.merge_tot(tot, t3)
    rep.cov.update({"states": tot["states"] + plain["states"], "transitions": tot["transitions"] + plain["transitions"],
                    "traces_validated_against_impl": tot["transitions"] + plain["transitions"], "max_depth": tot["max_depth"],
                    "deviation_bound_completed": maxdev, "models": len(ms),
                    "explanation": "BFS over per-second histories {nothing, traffic frame, DWR from the peer, DWA} with at most 2 (quick) / 3 (thorough) "
                                   "non-default seconds, horizon 16/26 s, on (idle, dwa, wakeup) in {(3,2,1),(2,2,2),(5,1,3)} x peer-level overrides, inbound and "
                                   "outbound; the watchdog monitor judges DWR/DWA/close at the node's own timer-check instants with same-instant slack; "
                                   "additionally every history of depth 6 over the same alphabet without deviation bound on two models"})
    return rep.finish()


def replay(case):
    if "stuck" in case:
        return [Violation(k, d) for k, d, c in stuck_output_case(tuple(case["stuck"]))]
    if "sched" in case:
        import functools
        from .. import scheddfs
        obs_vs, ch = scheddfs.replay_choices(functools.partial(sched_execute, case["sched"]), case["choices"])
        return [Violation(k, d) for k, d in sched_check(obs_vs)]
    hist = tuple(tuple(e) for e in case["history"])
    for m in models("thorough"):
        if m.name == case["model"]:
            out = []
            for k in range(1, len(hist) + 1):
                r = m.build(hist[:k])
                if r is not None:
                    out += [Violation(key, d) for key, d in r[1]]
            return out
    return []
