"""C12 - disconnect-peer handling and reconnect policy."""
from __future__ import annotations

import copy

from .. import common, env, monitors
from ..common import Report, Violation

MONS = [monitors.ReconnectMonitor, monitors.AnswerMonitor]


def cfg(persistent=True, always=False, wait=2, ips=True):
    return {"node": {"ips": ["10.0.0.1"], "tcp_port": 3868, "cer_timeout": 2, "cea_timeout": 2, "idle_timeout": 30, "dwa_timeout": 3, "wakeup": 1},
            "peers": [{"name": "peer1.example.org", "ips": ["10.1.0.1"] if ips else [], "persistent": persistent, "always_reconnect": always,
                       "reconnect_wait": wait}],
            "apps": [{"id": env.APP_ACCT, "acct": True, "peers": [0]}]}


def models(tier):
    out = []
    alpha = [("tick", 1), ("plan", "refused"), ("plan", "inprogress"), ("send", 0, "own"), ("accept",)]
    for c in (0, 1):
        alpha += [("m", c, "cea_ok"), ("m", c, "cea_3xxx"), ("m", c, "dpr"), ("eof", c), ("rst", c), ("resolve", c, True), ("resolve", c, False)]
    alpha += [("m", 1, "cer_p0"), ("m", 2, "cer_p0"), ("eof", 2)]
    variants = [(True, False, 2), (True, True, 2), (True, False, 3)]
    if tier == "thorough":
        variants += [(True, True, 3)]
    for persistent, always, wait in variants:
        for plan in ("ok", "refused", "inprogress") if tier == "thorough" or (always, wait) == (False, 2) else ("ok",):
            out.append(monitors.ScenarioModel(f"persistent-always={always}-wait={wait}-start={plan}", cfg(persistent, always, wait), alpha, MONS,
                                              max_socks=3, start_plan=[plan]))
    # an established connection that the node ends itself (garbage on the wire, hard write error) is a lost connection like any other
    for always in (False, True):
        out.append(monitors.ScenarioModel(f"established-then-closed-by-the-node-always={always}", cfg(True, always, 2),
                                          [("tick", 1), ("m", 0, "badlen"), ("wrerr", 0), ("m", 0, "dwr"), ("m", 0, "dpr"), ("eof", 0), ("plan", "refused"),
                                           ("m", 1, "cea_ok"), ("m", 1, "badlen"), ("wrerr", 1), ("m", 1, "dwr")],
                                          MONS, max_socks=3, start_plan=["ok"], prelude=[("m", 0, "cea_ok")]))
    # the lost peer must be redialled also while another connection keeps the I/O loop busy more often than its wake-up interval
    busy = cfg(True, False, 2)
    busy["node"]["wakeup"] = 3
    busy["peers"].append({"name": "peer2.example.org"})
    busy["apps"][0]["peers"] = [0, 1]
    out.append(monitors.ScenarioModel("lost-peer-while-another-connection-is-busy", busy,
                                      [("seq", ("tick", 1), ("m", 0, "dwr")), ("tick", 1), ("plan", "refused")],
                                      MONS, max_socks=3, start_plan=["refused"], prelude=[("accept",), ("m", 0, "cer_p1")]))
    # a DWR is outstanding when the DPR arrives; the late DWA must not put the connection back into service
    wd = cfg(True, False, 5)
    wd["node"].update({"idle_timeout": 2, "dwa_timeout": 4})
    out.append(monitors.ScenarioModel("dpr-while-awaiting-DWA", wd, [("m", 0, "dpr"), ("m", 0, "dwa"), ("send", 0, "own"), ("tick", 1), ("m", 0, "dwr")],
                                      MONS, max_socks=1, start_plan=["ok"], prelude=[("m", 0, "cea_ok"), ("tick", 3)]))
    # non-persistent peer and persistent peer without addresses: connect inbound, lose the connection, never dialled
    for name, c in (("non-persistent", cfg(False, False, 2)), ("persistent-without-addresses", cfg(True, True, 2, ips=False))):
        a2 = [("tick", 1), ("accept",)]
        for c_i in (0, 1):
            a2 += [("m", c_i, "cer_p0"), ("m", c_i, "dpr"), ("eof", c_i), ("rst", c_i)]
        out.append(monitors.ScenarioModel(name, c, a2, MONS, max_socks=2))
    # persistent peer that connects inbound, is lost, and is then dialled
    a3 = [("tick", 1), ("accept",), ("plan", "refused")]
    for c_i in (0, 1):
        a3 += [("m", c_i, "cer_p0"), ("m", c_i, "cea_ok"), ("m", c_i, "dpr"), ("eof", c_i)]
    out.append(monitors.ScenarioModel("persistent-peer-connecting-inbound", cfg(True, False, 2), a3, MONS, max_socks=3, start_plan=["refused"]))
    # three persistent peers, the first of them without addresses (it connects inbound and is lost): it can never be dialled, and it
    # must not keep the node from dialling the others when their wait is over
    three = cfg(True, False, 2, ips=False)
    three["peers"] += [{"name": "peer2.example.org", "ips": ["10.1.0.2"], "persistent": True, "reconnect_wait": 2},
                       {"name": "peer3.example.org", "ips": ["10.1.0.3"], "persistent": True, "reconnect_wait": 3}]
    three["apps"][0]["peers"] = [0, 1, 2]
    out.append(monitors.ScenarioModel("three-persistent-peers-the-first-without-addresses", three,
                                      [("tick", 1), ("plan", "refused"), ("accept",), ("m", 0, "cer_p0"), ("eof", 0), ("m", 1, "cea_ok"), ("m", 2, "cea_ok"), ("eof", 1)],
                                      MONS, max_socks=5, start_plan=["refused", "refused"]))
    # both ends dial each other; the peer spells its name in capitals in its CEA / CER (DiameterIdentity compares case-insensitively);
    # either connection is lost while the other one lives on: the peer still has a connection and must not be dialled again
    for always in (False, True):
        a4 = [("tick", 1), ("m", 0, "cea_okcase"), ("m", 0, "cea_ok"), ("eof", 1), ("eof", 0), ("m", 1, "dpr"), ("m", 0, "dpr"), ("rst", 1)]
        # (a) the peer's own connection completes its CER while the CEA on the dialled one is still outstanding
        out.append(monitors.ScenarioModel(f"mutual-dial-peer-name-in-capitals-always={always}", cfg(True, always, 2), a4, MONS, max_socks=3, start_plan=["ok"],
                                          prelude=[("accept",), ("m", 1, "cer_p0")]))
        # (b) the dialled connection is ready first, the peer's own connection (name in capitals in its CER as well) follows
        a5 = [("tick", 1), ("accept",), ("m", 1, "cer_p0"), ("m", 1, "cer_capsp0"), ("eof", 1), ("eof", 0), ("m", 1, "dpr"), ("m", 0, "dpr")]
        out.append(monitors.ScenarioModel(f"mutual-dial-dialled-first-peer-name-in-capitals-always={always}", cfg(True, always, 2), a5, MONS, max_socks=3,
                                          start_plan=["ok"], prelude=[("m", 0, "cea_okcase")]))
    # a second deterministic scheduling policy (the I/O thread runs only when nothing else can): thorough tier
    if tier == "thorough":
        out = monitors.with_io_last(out)
    return out


# ------------------------------------------------------------------ E4: stop() racing with a due reconnect
def sched_execute(variant, prefix):
    """A persistent peer was lost and its reconnect is due at this instant; stop() starts in another thread at the same
    instant.  All interleavings (bounded) at line granularity inside _reconnect_peers/_connect_to_peer/_add_peer_connection/stop."""
    from .. import scenario, scheddfs, simkernel as sk
    import diameter.node.node as nn
    sk.install()
    sk.set_line_points({sk.code_of(nn.Node, "_reconnect_peers"): None, sk.code_of(nn.Node, "_connect_to_peer"): None,
                        sk.code_of(nn.Node, "_add_peer_connection"): None, sk.code_of(nn.Node, "stop"): None})
    ch = scheddfs.Chooser(prefix)
    c = cfg(True, False, 2)
    sc = scenario.Scenario(c, chooser=ch, max_socks=3, start_plan=["ok"])
    try:
        nw = sc.start()
        mons = [m(sc) for m in MONS]
        vs = []
        for ev in (("m", 0, "cea_ok"), ("eof", 0), ("tick", 1)):
            sc.apply(ev)
            for m in mons:
                vs += m.step()
        nw.world.jump(1)            # reconnect_wait has elapsed: the I/O thread's next wake-up dials
        nw.world.points_on = True
        ch.window = True
        sc.apply(("stop", variant == "force", 2))
        ch.window = False
        nw.world.points_on = False
        for m in mons:
            vs += m.step()
        for _ in range(4):
            sc.apply(("tick", 1))
            for m in mons:
                vs += m.step()
        dialled = [(s.sid, s.created_while, s.connect_called) for s in nw.world.socks if s.kind == "dialled" or s.connect_called]
        obs = (variant, tuple(sorted(set(k for k, d in vs))), tuple(dialled), tuple(nw.thread_failures()))
        return (obs, tuple(vs)), ch
    finally:
        sc.close()


def sched_check(obs_vs):
    obs, vs = obs_vs
    return [(k + ":under-some-schedule", d) for k, d in vs]


def flood_models(n, younger):
    """younger: the persistent peer's dialled connection is younger than the busy inbound one (its threads run after the busy
    connection's, so its wake-up request lands behind the others in the pipe) - or older."""
    c = cfg(True, False, 2)
    c["peers"].append({"name": "peer2.example.org"})
    c["apps"][0]["peers"] = [0, 1]
    if younger:
        pre = [("accept",), ("m", 0, "cer_p1"), ("plan", "ok"), ("tick", 1), ("tick", 1), ("tick", 1), ("m", 1, "cea_ok")]
        busy, lost, plan = 0, 1, ["refused"]
    else:
        pre = [("m", 0, "cea_ok"), ("accept",), ("m", 1, "cer_p1")]
        busy, lost, plan = 1, 0, ["ok"]
    m = monitors.ScenarioModel(f"{n}-wake-ups-when-the-persistent-peer's-{'younger' if younger else 'older'}-connection-closes-itself", c,
                               [("xn", busy, "dwr", n, lost, "badlen"), ("tick", 1), ("plan", "refused")], MONS, max_socks=4, start_plan=plan, prelude=pre)
    return monitors.with_io_last([m]), (busy, lost)


def flood_case(args):
    """Another connection has n answers to write (n wake-up requests) in the instant in which the persistent peer's connection closes
    itself on garbage: the peer must be reaped and dialled again after its reconnect wait.  Fixed history, both scheduling policies."""
    n, io_last, younger = args
    ms, (busy, lost) = flood_models(n, younger)
    m = ms[1 if io_last else 0]
    hist = (("xn", busy, "dwr", n, lost, "badlen"), ("tick", 1), ("tick", 1), ("tick", 1), ("tick", 1))
    out = []
    cnt = 0
    for k in range(1, len(hist) + 1):
        r = m.build(hist[:k])
        cnt += 1
        if r is None:
            if k == 1:
                raise RuntimeError(f"flood history not enabled in model {m.name}")
            break
        for key, d in r[1]:
            out.append((key, f"[{m.name}] history {list(hist[:k])}: {d}", {"model": m.name, "history": [list(e) for e in hist[:k]], "flood": n, "younger": younger}))
    return cnt, out


def run(tier):
    rep = Report("C12", tier, "model_checking")
    common.pool()
    import functools
    from .. import scheddfs
    bound = 2 if tier == "thorough" else 1
    sched = 0
    tasks = [(functools.partial(sched_execute, v), sched_check, bound) for v in ("graceful", "force")]
    for v, r in zip(("graceful", "force"), (scheddfs.explore_many(tasks) if tier != "thorough" else scheddfs.explore_many_capped(tasks, 1, 600))):
        sched += r["executions"]
        for (key, detail), choices in r["violations"]:
            rep.add(Violation(key, f"[stop({v}) racing with a due reconnect, bound {bound}] choices {choices}: {detail}", {"sched": v, "choices": choices}))
        rep.sample({"schedule_exploration": f"stop({v}) vs the I/O thread's due reconnect at line granularity", "preemption_bound": bound, "bound_completed_without_cap": r.get("bound_completed", bound), "capped": r.get("capped", False),
                    "executions": r["executions"], "distinct_outcomes": len(r["outcomes"]), "branching_points": r["max_points"]})
    rep.cov["schedules"] = sched
    depth = 8 if tier == "thorough" else 5
    ms = models(tier)
    tot = monitors.run_models(rep, [m for m in ms if not m.name.startswith(("lost-peer-while", "three-persistent"))], depth, dedup_depth_plain=depth - 3, time_cap=1800 if tier == "thorough" else 110)
    # (a pass of its own, so that its depth does not depend on how much of the shared time budget the larger models have used)
    t0_ = monitors.run_models(rep, [m for m in ms if m.name.startswith("three-persistent")], 7 if tier == "thorough" else 5, time_cap=600 if tier == "thorough" else 90)
    monitors.merge_tot(tot, t0_)
    # small alphabet, needs a horizon of several wake-up intervals
    nflood = 0
    for cnt, vsf in common.pmap(flood_case, [(n, pol, y) for n in (12, 50, 700) for pol in (False, True) for y in (False, True)], chunksize=1):
        nflood += cnt
        for key, detail, case in vsf:
            rep.add(Violation(key, detail, case))
    rep.cov["many_wake_ups_fixed_histories"] = nflood
    t2 = monitors.run_models(rep, [m for m in ms if m.name.startswith("lost-peer-while")], 10, dedup_depth_plain=None, time_cap=300 if tier == "thorough" else 60)
    for k in tot:
        tot[k] = max(tot[k], t2[k]) if k == "max_depth" else tot[k] + t2[k]
    # the reconnect policy for SCTP peers (dialled with connectx in a branch of its own)
    t3 = monitors.run_models(rep, monitors.sctp_copies(ms, ("persistent-always=False-wait=2-start=ok", "persistent-always=False-wait=2-start=refused",
                                                            "persistent-always=False-wait=2-start=inprogress", "persistent-always=True-wait=2-start=ok",
                                                            "established-then-closed-by-the-node-always=False", "dpr-while-awaiting-DWA")),
                             depth - 1, time_cap=600 if tier == "thorough" else 40)
    monitors.merge_tot(tot, t3)
    rep.cov.update({"states": tot["states"], "transitions": tot["transitions"], "traces_validated_against_impl": tot["transitions"] + tot["plain_transitions"] + sched,
                    "max_depth": tot["max_depth"], "states_without_dedup": tot["plain_states"],
                    "explanation": "BFS over histories of dial outcomes {ok, refused, in progress -> ok/fail}, CEA {2001, rejected, none -> timeout}, DPR, eof, "
                                   "reset, send_request probes and 1 s ticks for peers persistent x always_reconnect x reconnect_wait {2,3} x with/without "
                                   "addresses; the monitor judges every connect() against the environment's own record of losses"})
    return rep.finish()


def replay(case):
    if "sched" in case:
        import functools
        from .. import scheddfs
        obs_vs, ch = scheddfs.replay_choices(functools.partial(sched_execute, case["sched"]), case["choices"])
        return [Violation(k, d) for k, d in sched_check(obs_vs)]
    hist = tuple(tuple(e) for e in case["history"])
    if "flood" in case:
        out = []
        for m in flood_models(case["flood"], case.get("younger", False))[0]:
            if m.name == case["model"]:
                for k in range(1, len(hist) + 1):
                    r = m.build(hist[:k])
                    if r is not None:
                        out += [Violation(key, d) for key, d in r[1]]
        return out
    for m in models("thorough"):
        if m.name == case["model"]:
            out = []
            for k in range(1, len(hist) + 1):
                r = m.build(hist[:k])
                if r is not None:
                    out += [Violation(key, d) for key, d in r[1]]
            return out
    return []
