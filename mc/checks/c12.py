"""C12 - disconnect-peer handling and reconnect policy."""
from __future__ import annotations

import copy

from .. import common, env, monitors
from ..common import Report, Violation

MONS = [monitors.ReconnectMonitor, monitors.AnswerMonitor]


def cfg(persistent=True, always=False, wait=2, ips=True):
    return {"node": {"ips": ["10.0.0.1"], "tcp_port": 3868, "cer_timeout": 2, "cea_timeout": 2, "idle_timeout": 30, "dwa_timeout": 3, "wakeup": 1},
            "peers": [{"name": "peer1.example.org", "ips": ["10.1.0.1"] if ips else [], "persistent": persistent, "always_reconnect": always,
                       "reconnect_wait": wait}],
            "apps": [{"id": env.APP_ACCT, "acct": True, "peers": [0]}]}


def models(tier):
    out = []
    alpha = [("tick", 1), ("plan", "refused"), ("plan", "inprogress"), ("send", 0, "own")]
    for c in (0, 1):
        alpha += [("m", c, "cea_ok"), ("m", c, "cea_3xxx"), ("m", c, "dpr"), ("eof", c), ("rst", c), ("resolve", c, True), ("resolve", c, False)]
    variants = [(True, False, 2), (True, True, 2), (True, False, 3)]
    if tier == "thorough":
        variants += [(True, True, 3)]
    for persistent, always, wait in variants:
        for plan in ("ok", "refused", "inprogress") if tier == "thorough" or (always, wait) == (False, 2) else ("ok",):
            out.append(monitors.ScenarioModel(f"persistent-always={always}-wait={wait}-start={plan}", cfg(persistent, always, wait), alpha, MONS,
                                              max_socks=3, start_plan=[plan]))
    # non-persistent peer and persistent peer without addresses: connect inbound, lose the connection, never dialled
    for name, c in (("non-persistent", cfg(False, False, 2)), ("persistent-without-addresses", cfg(True, True, 2, ips=False))):
        a2 = [("tick", 1), ("accept",)]
        for c_i in (0, 1):
            a2 += [("m", c_i, "cer_p0"), ("m", c_i, "dpr"), ("eof", c_i), ("rst", c_i)]
        out.append(monitors.ScenarioModel(name, c, a2, MONS, max_socks=2))
    # persistent peer that connects inbound, is lost, and is then dialled
    a3 = [("tick", 1), ("accept",), ("plan", "refused")]
    for c_i in (0, 1):
        a3 += [("m", c_i, "cer_p0"), ("m", c_i, "cea_ok"), ("m", c_i, "dpr"), ("eof", c_i)]
    out.append(monitors.ScenarioModel("persistent-peer-connecting-inbound", cfg(True, False, 2), a3, MONS, max_socks=3, start_plan=["refused"]))
    return out


def run(tier):
    rep = Report("C12", tier, "model_checking")
    common.pool()
    depth = 8 if tier == "thorough" else 6
    tot = monitors.run_models(rep, models(tier), depth, dedup_depth_plain=depth - 3, time_cap=1800 if tier == "thorough" else 110)
    rep.cov.update({"states": tot["states"], "transitions": tot["transitions"], "traces_validated_against_impl": tot["transitions"] + tot["plain_transitions"],
                    "max_depth": tot["max_depth"], "states_without_dedup": tot["plain_states"],
                    "explanation": "BFS over histories of dial outcomes {ok, refused, in progress -> ok/fail}, CEA {2001, rejected, none -> timeout}, DPR, eof, "
                                   "reset, send_request probes and 1 s ticks for peers persistent x always_reconnect x reconnect_wait {2,3} x with/without "
                                   "addresses; the monitor judges every connect() against the environment's own record of losses"})
    return rep.finish()


def replay(case):
    hist = tuple(tuple(e) for e in case["history"])
    for m in models("thorough"):
        if m.name == case["model"]:
            out = []
            for k in range(1, len(hist) + 1):
                r = m.build(hist[:k])
                if r is not None:
                    out += [Violation(key, d) for key, d in r[1]]
            return out
    return []
