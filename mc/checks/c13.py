"""C13 - peer/connection tables and application readiness stay consistent."""
from __future__ import annotations

import copy

from .. import common, env, monitors
from ..common import Report, Violation

MONS = [monitors.TableMonitor, monitors.AnswerMonitor]
BASE = {
    "node": {"ips": ["10.0.0.1"], "tcp_port": 3868, "cer_timeout": 2, "cea_timeout": 2, "idle_timeout": 3, "dwa_timeout": 2, "wakeup": 1},
    "peers": [{"name": "peer1.example.org"}, {"name": "peer2.example.org"}],
    "apps": [{"id": env.APP_ACCT, "acct": True, "peers": [0, 1]}, {"id": env.APP_AUTH, "auth": True, "peers": [1]}],
}


def models(tier):
    out = []
    # inbound: up to three connections, the same peer may connect twice
    alpha = [("accept",), ("tick", 1)]
    for c in (0, 1, 2):
        alpha += [("m", c, "cer_p0"), ("eof", c)]
    for c in (0, 1):
        alpha += [("m", c, "cer_p1"), ("m", c, "cer_unknown"), ("m", c, "cer_nocommon"), ("m", c, "dpr"), ("rst", c), ("m", c, "dwa"), ("m", c, "badlen"),
                  ("m", c, "cer_capsp0")]
    # two connections have something for the node in the same instant: one merely makes it write, the other makes its reader close
    alpha += [("x", 0, "dwr", 1, "badlen"), ("x", 1, "dwr", 0, "badlen"), ("x", 0, "dwr", 1, "dpr")]
    out.append(monitors.ScenarioModel("inbound-up-to-3-connections", BASE, alpha, MONS, max_socks=3))
    # the node's next write on a connection fails hard (EPIPE: the peer is gone but neither FIN nor RST has been seen)
    alpha_w = [("accept",), ("tick", 1)]
    for c in (0, 1):
        alpha_w += [("m", c, "cer_p0"), ("m", c, "cer_p1"), ("wrerr", c), ("m", c, "dwr"), ("eof", c)]
    out.append(monitors.ScenarioModel("hard-write-failures", BASE, alpha_w, MONS, max_socks=2))
    # a ready connection that is awaiting its DWA while other connections come and go; garbage that makes the reader close
    alpha = [("accept",), ("tick", 1), ("m", 0, "dwa"), ("m", 0, "badlen"), ("eof", 0)]
    for c in (1, 2):
        alpha += [("m", c, "cer_p1"), ("m", c, "cer_unknown"), ("eof", c), ("m", c, "badlen")]
    out.append(monitors.ScenarioModel("ready-connection-awaiting-DWA", BASE, alpha, MONS, max_socks=3,
                                      prelude=[("accept",), ("m", 0, "cer_p0"), ("tick", 4)]))
    # outbound persistent peer + inbound from the other / the same peer
    ob = copy.deepcopy(BASE)
    ob["peers"][0].update({"ips": ["10.1.0.1"], "persistent": True, "reconnect_wait": 2})
    for plan in ("ok", "inprogress", "refused"):
        alpha = [("tick", 1), ("accept",), ("plan", "ok"), ("plan", "refused"), ("plan", "inprogress")]
        alpha += [("m", 0, n) for n in ("cea_ok", "cea_okcase", "cea_3xxx", "cea_nohost", "dpr", "dwa")] + [("eof", 0), ("rst", 0), ("resolve", 0, True), ("resolve", 0, False)]
        alpha += [("m", 1, n) for n in ("cer_p0", "cer_p1", "cea_ok", "dpr")] + [("eof", 1), ("resolve", 1, True)]
        out.append(monitors.ScenarioModel(f"outbound-persistent-start-{plan}", ob, alpha, MONS, max_socks=3, start_plan=[plan]))
    # second lifetime of a peer whose first connection is winding down after its DPR, while unrelated connections come and go
    alpha = [("accept",), ("eof", 0), ("tick", 1)]
    for c in (1, 2):
        alpha += [("m", c, "cer_p0"), ("m", c, "cer_p1"), ("m", c, "cer_unknown"), ("eof", c)]
    out.append(monitors.ScenarioModel("second-lifetime-after-DPR", BASE, alpha, MONS, max_socks=3,
                                      prelude=[("accept",), ("m", 0, "cer_p0"), ("m", 0, "dpr")]))
    # one application whose peers live in different realms; another one served by the second realm's peer only
    xr = copy.deepcopy(BASE)
    xr["peers"][1]["realm"] = "realm2.example"
    alpha = [("accept",), ("tick", 1)]
    for c in (0, 1, 2):
        alpha += [("m", c, "cer_p0"), ("m", c, "cer_p1"), ("eof", c), ("m", c, "dpr")]
    out.append(monitors.ScenarioModel("peers-in-two-realms", xr, alpha, MONS, max_socks=3))
    # many wake-up requests at once: one connection has 180 answers to write in the instant in which another one must be closed
    alpha = [("xn", 0, "dwr", 180, 1, "badlen"), ("xn", 1, "dwr", 180, 0, "badlen"), ("xn", 0, "dwr", 180, 1, "dpr"), ("eof", 0), ("eof", 1), ("tick", 1),
             ("m", 0, "dwr"), ("m", 1, "dwr")]
    out.append(monitors.ScenarioModel("many-wake-ups-at-once", BASE, alpha, MONS, max_socks=2,
                                      prelude=[("accept",), ("m", 0, "cer_p0"), ("accept",), ("m", 1, "cer_p1")]))
    # a second deterministic scheduling policy (the I/O thread runs only when nothing else can)
    if True:
        out = monitors.with_io_last(out)
    return out


# ------------------------------------------------------------------ E4: handshake message vs the event that ends the connection
SCHED_VARIANTS = ("cer-at-cer-timeout", "cea-at-cea-timeout", "cer-then-eof", "second-cer-of-connected-peer")


def sched_execute(variant, prefix):
    """A handshake message is handled by the connection's reader thread while, in the same instant, the I/O thread ends
    the connection (capabilities-exchange timeout found by the timer check, or the peer's close).  Every interleaving
    (bounded) at line granularity in the handlers and in the close path, then the table invariant at quiescence and after
    each of 3 further seconds."""
    from .. import scenario, scheddfs, simkernel as sk
    import diameter.node.node as nn
    import diameter.node.peer as pp
    sk.install()
    pts = {}
    for name in ("receive_cer", "receive_cea", "_check_timers", "close_connection_socket", "remove_peer_connection", "_remove_peer_connection", "_flag_connection_as_ready",
                 "_flag_peer_as_connected", "_assign_peer_connection", "_receive_message"):
        if hasattr(nn.Node, name):
            pts[sk.code_of(nn.Node, name)] = None
    if hasattr(pp.PeerConnection, "close"):
        pts[sk.code_of(pp.PeerConnection, "close")] = None
    sk.set_line_points(pts)
    ch = scheddfs.Chooser(prefix)
    cfg = copy.deepcopy(BASE)
    cfg["node"]["wakeup"] = 6       # no timer check between the set-up and the racing instant
    start_plan = None
    if variant == "cea-at-cea-timeout":
        cfg["peers"][0].update({"ips": ["10.1.0.1"], "persistent": True, "reconnect_wait": 30})
        start_plan = ["ok"]
    sc = scenario.Scenario(cfg, chooser=ch, max_socks=3, start_plan=start_plan)
    try:
        nw = sc.start()
        mons = [m(sc) for m in MONS]
        vs = []

        def step(ev):
            ok = sc.apply(ev)
            for m in mons:
                vs.extend(m.step())
            return ok
        if variant == "cer-at-cer-timeout":
            step(("accept",))
            nw.world.jump(3)
            racing = [("m", 0, "cer_p0")]
        elif variant == "cea-at-cea-timeout":
            nw.world.jump(3)
            racing = [("m", 0, "cea_ok")]
        elif variant == "cer-then-eof":
            step(("accept",))
            racing = [("b", 0, "cer_p0", "EOF")]
        else:
            step(("accept",))
            step(("m", 0, "cer_p0"))
            step(("accept",))
            racing = [("b2", 0, 1)]
        nw.world.points_on = True
        ch.window = True
        for ev in racing:
            if ev[0] == "b" and ev[3] == "EOF":
                s = sc.sock(ev[1])
                nw.deliver(s.fs, sc.message(s, ev[2]), run=False)
                s.env_closed = True
                nw.eof(s.fs)
                sc.sync()
            elif ev[0] == "b2":
                s0, s1 = sc.sock(0), sc.sock(1)
                s0.env_closed = True
                nw.eof(s0.fs, run=False)
                nw.deliver(s1.fs, sc.message(s1, "cer_p0"))
                sc.sync()
            else:
                sc.apply(ev)
            for m in mons:
                vs.extend(m.step())
        ch.window = False
        nw.world.points_on = False
        for _ in range(3):
            step(("tick", 1))
        obs = (variant, tuple(sorted(set(k for k, d in vs))), tuple(s.fs.closed for s in sc.socks),
               tuple(sorted((p.node_name, p.connection is not None) for p in nw.node.peers.values())), tuple(nw.thread_failures()))
        return (obs, tuple(vs)), ch
    finally:
        sc.close()


def sched_check(obs_vs):
    obs, vs = obs_vs
    return [(k + ":under-some-schedule", d) for k, d in vs]


# ------------------------------------------------------------------ E5: the connection ends at every step of the handling of its CER / CEA
HANDOVER_VARIANTS = [(msg, fault) for msg in ("cea_ok", "cer_p0", "cer_nocommon") for fault in ("eof", "clock")]


def handover_execute(variant, k):
    """The reader thread is handling the connection's CER / CEA; at kernel step k of that handling (line granularity in the handlers)
    the peer closes the connection / the capabilities-exchange deadline passes and the I/O thread reacts at once (one environment
    step + one forced hand-over: complete over the numbered steps, see mc/handover.py).  Table invariant at quiescence and after each
    of 3 further seconds."""
    from .. import handover, scenario, simkernel as sk
    import diameter.node.node as nn
    msg, fault = variant
    sk.install()
    pts = {}
    for name in ("receive_cer", "receive_cea", "_flag_connection_as_ready", "_flag_peer_as_connected", "_assign_peer_connection", "_receive_message"):
        if hasattr(nn.Node, name):
            pts[sk.code_of(nn.Node, name)] = None
    # (helpers a refactoring may have split off the handlers are points as well: every function of Node called from them)
    for name, f in vars(nn.Node).items():
        if name.startswith("_is_") and callable(f):
            pts[sk.code_of(nn.Node, name)] = None
    sk.set_line_points(pts)
    ch = handover.HandOverChooser("_handle_connections")
    cfg = copy.deepcopy(BASE)
    cfg["node"]["wakeup"] = 6
    start_plan = None
    if msg == "cea_ok":
        cfg["peers"][0].update({"ips": ["10.1.0.1"], "persistent": True, "reconnect_wait": 30})
        start_plan = ["ok"]
    sc = scenario.Scenario(cfg, chooser=ch, max_socks=3, start_plan=start_plan)
    try:
        nw = sc.start()
        mons = [m(sc) for m in MONS]
        vs = []

        def step(ev):
            ok = sc.apply(ev)
            for m in mons:
                vs.extend(m.step())
            return ok
        if msg != "cea_ok":
            step(("accept",))
        s = sc.socks[0]
        fired = []

        def inject():
            fired.append(1)
            if fault == "eof":
                s.env_closed = True
                s.fs.eof = True
                nw.world.obs("env_eof", s.fs.sid)
            else:
                nw.world.jump(3)
            ch.active = True
        base = nw.world.steps
        if k is not None:
            nw.world.step_hooks[base + k] = inject
        nw.world.points_on = True
        step(("m", 0, msg))
        nw.world.points_on = False
        steps = nw.world.steps - base
        nw.world.step_hooks.clear()
        ch.active = False
        for _ in range(3):
            step(("tick", 1))
        out = [(f"{key}:connection-ended-while-its-{msg.split('_')[0].upper()}-was-being-handled", f"{fault} at kernel step {k} of the handling of {msg}: {d}") for key, d in vs]
        for f in nw.thread_failures():
            out.append(("thread-died:connection-ended-while-its-handshake-was-being-handled", f"{variant} step {k}: {f}"))
        return bool(fired), steps, out
    except sk.Livelock as e:
        return True, 0, [("livelock:node-threads-never-reach-quiescence", f"{variant} step {k}: {e}")]
    finally:
        sc.close()


def flood_models(n, last, a, b):
    base_m = monitors.ScenarioModel(f"{n}-wake-ups-at-once", BASE, [("xn", a, "dwr", n, b, last), ("tick", 1), ("eof", b)], MONS, max_socks=2,
                                    prelude=[("accept",), ("m", 0, "cer_p0"), ("accept",), ("m", 1, "cer_p1")])
    return monitors.with_io_last([base_m])


def flood_case(args):
    n, last, a, b, io_last = args
    m = flood_models(n, last, a, b)[1 if io_last else 0]
    hist = (("xn", a, "dwr", n, b, last), ("tick", 1)) + ((("eof", b), ("tick", 1)) if last == "dpr" else ())
    out = []
    cnt = 0
    for k in range(1, len(hist) + 1):
        r = m.build(hist[:k])
        cnt += 1
        if r is None:
            break
        for key, d in r[1]:
            out.append((key, f"[{m.name}] history {list(hist[:k])}: {d}", {"model": m.name, "history": [list(e) for e in hist[:k]], "flood": n}))
    return cnt, out


def run(tier):
    rep = Report("C13", tier, "model_checking")
    common.pool()
    import functools
    from .. import scheddfs
    bound = 2 if tier == "thorough" else 1
    sched = 0
    tasks = [(functools.partial(sched_execute, v), sched_check, bound) for v in SCHED_VARIANTS]
    for v, r in zip(SCHED_VARIANTS, (scheddfs.explore_many(tasks) if tier != "thorough" else scheddfs.explore_many_capped(tasks, 1, 600))):
        sched += r["executions"]
        for (key, detail), choices in r["violations"]:
            rep.add(Violation(key, f"[{v}, bound {bound}] choices {choices}: {detail}", {"sched": v, "choices": choices}))
        rep.sample({"schedule_exploration": f"{v}: reader thread handling the message vs I/O thread ending the connection, line granularity",
                    "preemption_bound": bound, "bound_completed_without_cap": r.get("bound_completed", bound), "capped": r.get("capped", False), "executions": r["executions"], "distinct_outcomes": len(r["outcomes"]), "branching_points": r["max_points"]})
    from .. import handover
    for v in HANDOVER_VARIANTS:
        n, pts, hvs = handover.enumerate_points(functools.partial(handover_execute, v))
        sched += n
        for (key, detail), k in hvs:
            rep.add(Violation(key, detail, {"handover": list(v), "step": k}))
        rep.sample({"fault_at_every_step": f"{v[1]} at every kernel step of the handling of {v[0]}, the I/O thread reacts at once", "points": pts, "executions": n})
    rep.cov["schedules"] = sched
    depth = 7 if tier == "thorough" else 5
    ms = models(tier)
    tot = monitors.run_models(rep, [m for m in ms if not m.name.startswith("many-wake-ups")], depth, dedup_depth_plain=depth - 2, time_cap=1500 if tier == "thorough" else 110)
    t2 = monitors.run_models(rep, [m for m in ms if m.name.startswith("many-wake-ups")], 4 if tier == "thorough" else 3, time_cap=300 if tier == "thorough" else 40)
    for k in tot:
        tot[k] = max(tot[k], t2[k]) if k == "max_depth" else tot[k] + t2[k]
    # the table invariant over SCTP (listen / accept / connectx / close are separate branches of the node)
    t3 = monitors.run_models(rep, monitors.sctp_copies(ms, ("inbound-up-to-3-connections", "hard-write-failures", "outbound-persistent-start-ok",
                                                            "outbound-persistent-start-refused", "outbound-persistent-start-inprogress")),
                             depth - 1, time_cap=600 if tier == "thorough" else 40)
    monitors.merge_tot(tot, t3)
    # the same with 12 and with 700 answers to write (a wake-up pipe drained in reads of any fixed size must not lose the request of the
    # connection that has to be closed): fixed histories, both scheduling policies
    nflood = 0
    jobs = [(n, last, a, b, pol) for n in (12, 50, 700) for last in ("badlen", "dpr") for a, b in ((0, 1), (1, 0)) for pol in (False, True)]
    for cnt, vsf in common.pmap(flood_case, jobs, chunksize=1):
        nflood += cnt
        for key, detail, case in vsf:
            rep.add(Violation(key, detail, case))
    rep.cov["many_wake_ups_fixed_histories"] = nflood
    rep.cov.update({"states": tot["states"], "transitions": tot["transitions"], "traces_validated_against_impl": tot["transitions"] + tot["plain_transitions"],
                    "max_depth": tot["max_depth"], "states_without_dedup": tot["plain_states"],
                    "explanation": "BFS over histories of accepts, dial outcomes, CER/CEA outcomes (incl. a second connection of a connected peer), DPR, "
                                   "eof, reset, watchdog and CE timeouts via ticks on 2 peers / 2 applications; invariant over Node.peers, connections, "
                                   "peer_sockets, Peer.connection, Application.is_ready and fake-socket closed flags after every transition"})
    rep.assumptions += ["a connection 'of a peer' = dialled to it, or accepted and answered CEA 2001 for a CER naming it"]
    return rep.finish()


def replay(case):
    if "handover" in case:
        fired, steps, vs = handover_execute(tuple(case["handover"]), case["step"])
        return [Violation(k, d) for k, d in vs]
    if "sched" in case:
        import functools
        from .. import scheddfs
        obs_vs, ch = scheddfs.replay_choices(functools.partial(sched_execute, case["sched"]), case["choices"])
        return [Violation(k, d) for k, d in sched_check(obs_vs)]
    hist = tuple(tuple(e) for e in case["history"])
    if "flood" in case:
        h0 = hist[0]
        out = []
        for m in flood_models(case["flood"], h0[5], h0[1], h0[4]):
            if m.name == case["model"]:
                for k in range(1, len(hist) + 1):
                    r = m.build(hist[:k])
                    if r is not None:
                        out += [Violation(key, d) for key, d in r[1]]
        return out
    for m in models("thorough"):
        if m.name == case["model"]:
            out = []
            for k in range(1, len(hist) + 1):
                r = m.build(hist[:k])
                if r is not None:
                    out += [Violation(key, d) for key, d in r[1]]
            return out
    return []
