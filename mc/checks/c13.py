"""C13 - peer/connection tables and application readiness stay consistent."""
from __future__ import annotations

import copy

from .. import common, env, monitors
from ..common import Report, Violation

MONS = [monitors.TableMonitor, monitors.AnswerMonitor]
BASE = {
    "node": {"ips": ["10.0.0.1"], "tcp_port": 3868, "cer_timeout": 2, "cea_timeout": 2, "idle_timeout": 3, "dwa_timeout": 2, "wakeup": 1},
    "peers": [{"name": "peer1.example.org"}, {"name": "peer2.example.org"}],
    "apps": [{"id": env.APP_ACCT, "acct": True, "peers": [0, 1]}, {"id": env.APP_AUTH, "auth": True, "peers": [1]}],
}


def models(tier):
    out = []
    # inbound: up to three connections, the same peer may connect twice
    alpha = [("accept",), ("tick", 1)]
    for c in (0, 1, 2):
        alpha += [("m", c, "cer_p0"), ("eof", c)]
    for c in (0, 1):
        alpha += [("m", c, "cer_p1"), ("m", c, "cer_unknown"), ("m", c, "cer_nocommon"), ("m", c, "dpr"), ("rst", c), ("m", c, "dwa"), ("m", c, "badlen")]
    out.append(monitors.ScenarioModel("inbound-up-to-3-connections", BASE, alpha, MONS, max_socks=3))
    # a ready connection that is awaiting its DWA while other connections come and go; garbage that makes the reader close
    alpha = [("accept",), ("tick", 1), ("m", 0, "dwa"), ("m", 0, "badlen"), ("eof", 0)]
    for c in (1, 2):
        alpha += [("m", c, "cer_p1"), ("m", c, "cer_unknown"), ("eof", c), ("m", c, "badlen")]
    out.append(monitors.ScenarioModel("ready-connection-awaiting-DWA", BASE, alpha, MONS, max_socks=3,
                                      prelude=[("accept",), ("m", 0, "cer_p0"), ("tick", 4)]))
    # outbound persistent peer + inbound from the other / the same peer
    ob = copy.deepcopy(BASE)
    ob["peers"][0].update({"ips": ["10.1.0.1"], "persistent": True, "reconnect_wait": 2})
    for plan in ("ok", "inprogress", "refused"):
        alpha = [("tick", 1), ("accept",), ("plan", "ok"), ("plan", "refused"), ("plan", "inprogress")]
        alpha += [("m", 0, n) for n in ("cea_ok", "cea_3xxx", "cea_nohost", "dpr", "dwa")] + [("eof", 0), ("rst", 0), ("resolve", 0, True), ("resolve", 0, False)]
        alpha += [("m", 1, n) for n in ("cer_p0", "cer_p1", "cea_ok", "dpr")] + [("eof", 1), ("resolve", 1, True)]
        out.append(monitors.ScenarioModel(f"outbound-persistent-start-{plan}", ob, alpha, MONS, max_socks=3, start_plan=[plan]))
    return out


def run(tier):
    rep = Report("C13", tier, "model_checking")
    common.pool()
    depth = 7 if tier == "thorough" else 5
    tot = monitors.run_models(rep, models(tier), depth, dedup_depth_plain=depth - 2, time_cap=1500 if tier == "thorough" else 110)
    rep.cov.update({"states": tot["states"], "transitions": tot["transitions"], "traces_validated_against_impl": tot["transitions"] + tot["plain_transitions"],
                    "max_depth": tot["max_depth"], "states_without_dedup": tot["plain_states"],
                    "explanation": "BFS over histories of accepts, dial outcomes, CER/CEA outcomes (incl. a second connection of a connected peer), DPR, "
                                   "eof, reset, watchdog and CE timeouts via ticks on 2 peers / 2 applications; invariant over Node.peers, connections, "
                                   "peer_sockets, Peer.connection, Application.is_ready and fake-socket closed flags after every transition"})
    rep.assumptions += ["a connection 'of a peer' = dialled to it, or accepted and answered CEA 2001 for a CER naming it"]
    return rep.finish()


def replay(case):
    hist = tuple(tuple(e) for e in case["history"])
    for m in models("thorough"):
        if m.name == case["model"]:
            out = []
            for k in range(1, len(hist) + 1):
                r = m.build(hist[:k])
                if r is not None:
                    out += [Violation(key, d) for key, d in r[1]]
            return out
    return []
