"""C14 - no fault or handler outcome stops service; workers survive, later peers are served.

E5: each scripted scenario is first run fault-free and its kernel steps are numbered; then for
every step and every fault kind the scenario is re-run with the fault injected exactly there
(plus byte-boundary classes of every frame), time is advanced past every timeout, and a probe
peer must complete CER/CEA and have limit+2 requests delivered and answered as on a fresh node.
"""
from __future__ import annotations

import errno

from .. import common, env, refcodec as rc, scenario, simkernel as sk
from ..common import Report, Violation

FAULTS = ("eof", "rst", "rderr", "wrerr")
# scenarios whose faults are also enumerated at line granularity in the quick tier (all of them in the thorough tier)
FINE_SCENARIOS = ("inbound-handshake", "outbound-handshake", "outbound-handshake-rejected", "request-answer-basic", "held-answers", "two-connections", "disconnect-peer", "watchdog",
                  "threading-limit1-answer", "threading-limit1-none", "threading-limit2-raise", "threading-limit1-slow")
OUTCOMES = ("answer", "none", "raise", "slow")
LONG_LIVED = ("_handle_connections", "_collect_stats", "_wait_for_recv_msg", "_wait_for_resp_msg")


def cfg_for(kind, limit=0, outcome="answer"):
    app = {"id": env.APP_ACCT, "acct": True, "peers": [0, 1]}
    if kind == "threading":
        app.update({"kind": "threading", "max_threads": limit})
    elif kind == "hold":
        pass                # answers are submitted by ("ans", j) events of the script; probe requests are answered at once (see run_scenario)
    else:
        app.update({"behaviour": "answer"})
    return {"node": {"ips": ["10.0.0.1"], "tcp_port": 3868, "cer_timeout": 3, "cea_timeout": 3, "idle_timeout": 4, "dwa_timeout": 3, "wakeup": 1},
            "peers": [{"name": "peer1.example.org"}, {"name": "peer2.example.org"},
                      {"name": "peer3.example.org", "ips": ["10.1.0.3"], "persistent": True, "reconnect_wait": 600}],
            "apps": [app]}


def scenarios(tier):
    """(name, cfg kind, limit, outcome, start_plan, script)"""
    out = []
    out.append(("inbound-handshake", "basic", 0, "answer", ["refused"], [("accept",), ("m", 0, "cer_p0"), ("m", 0, "req")]))
    out.append(("outbound-handshake", "basic", 0, "answer", ["ok"], [("m", 0, "cea_ok"), ("m", 0, "req")]))
    out.append(("outbound-handshake-in-progress", "basic", 0, "answer", ["inprogress"], [("resolve", 0, True), ("m", 0, "cea_ok")]))
    # the handshakes and a request over SCTP (listen / accept / connectx / sctp_send / close are branches of their own)
    out.append(("inbound-handshake/sctp", "basic", 0, "answer", ["refused"], [("accept",), ("m", 0, "cer_p0"), ("m", 0, "req")]))
    out.append(("outbound-handshake/sctp", "basic", 0, "answer", ["ok"], [("m", 0, "cea_ok"), ("m", 0, "req")]))
    # the dialled peer rejects the CER; with the fault kind "eofacc" the peer also hangs up and a new peer connects in the same instant
    out.append(("outbound-handshake-rejected", "basic", 0, "answer", ["ok"], [("m", 0, "cea_3xxx"), ("tick", 1)]))
    out.append(("request-answer-basic", "basic", 0, "answer", ["refused"], [("accept",), ("m", 0, "cer_p0"), ("m", 0, "req"), ("m", 0, "req_missing"), ("m", 0, "req")]))
    out.append(("odd-traffic", "basic", 0, "answer", ["refused"], [("accept",), ("m", 0, "cer_p0"), ("m", 0, "untyped"), ("m", 0, "unkcmd"), ("m", 0, "req_T"),
                                                                     ("m", 0, "ans_unknown"), ("m", 0, "ans_nohost"), ("m", 0, "cea_unsolicited"), ("m", 0, "dwa_norc"),
                                                                     ("m", 0, "rq:9:own"), ("m", 0, "rq:3:foreign"), ("m", 0, "badlen")]))
    out.append(("outbound-request", "basic", 0, "answer", ["refused"], [("accept",), ("m", 0, "cer_p0"), ("send", 0, "own"), ("m", 0, "ans"), ("send", 0, "own"),
                                                                         ("tick", 3), ("m", 0, "ans")]))
    out.append(("watchdog", "basic", 0, "answer", ["refused"], [("accept",), ("m", 0, "cer_p0"), ("m", 0, "dwr"), ("tick", 5), ("m", 0, "dwa"), ("tick", 5)]))
    out.append(("disconnect-peer", "basic", 0, "answer", ["refused"], [("accept",), ("m", 0, "cer_p0"), ("m", 0, "req"), ("m", 0, "dpr"), ("tick", 1)]))
    # the basic application holds its answers: submitted later (("ans", j)), also after the connection has gone, also twice
    out.append(("held-answers", "hold", 0, "answer", ["refused"], [("accept",), ("m", 0, "cer_p0"), ("m", 0, "req"), ("m", 0, "req"), ("ans", 1), ("m", 0, "dwr"),
                                                                    ("ans", 0), ("ans2", 0), ("m", 0, "req"), ("tick", 1), ("ans", 2)]))
    # two connections: one is busy with a request / watchdog while the other one is being established, used and lost
    out.append(("two-connections", "hold", 0, "answer", ["refused"], [("accept",), ("m", 0, "cer_p0"), ("m", 0, "req"), ("accept",), ("m", 1, "cer_p1"), ("m", 1, "req"),
                                                                       ("ans", 0), ("m", 1, "dpr"), ("ans", 1), ("m", 0, "dwr"), ("eof", 1), ("m", 0, "req"), ("ans", 2)]))
    # both ends dial each other: the node's own dial awaits its CEA while the same peer completes a CER on an inbound connection
    out.append(("mutual-dial", "basic", 0, "answer", ["ok"], [("accept",), ("m", 1, "cer_p2"), ("m", 1, "req"), ("m", 0, "cea_ok"), ("m", 0, "req"),
                                                              ("eof", 1), ("m", 0, "req"), ("tick", 1)]))
    # two connections with one slow request each, handled concurrently; the first connection is lost while its handler works; both
    # handlers finish in the same instant (run under the policy "the answer consumer gets the CPU last", so that both results queue up)
    for limit in (2, 3):
        out.append((f"threading-limit{limit}-two-slow-requests/consumer-last", "threading", limit, "slow", ["refused"],
                    [("accept",), ("m", 0, "cer_p0"), ("accept",), ("m", 1, "cer_p1"), ("m", 0, "req"), ("m", 1, "req"), ("tick", 1), ("eof", 0),
                     ("tick", 2), ("m", 1, "dwr"), ("tick", 2), ("m", 1, "dwr"), ("tick", 2), ("m", 1, "dwr"), ("m", 1, "req"),      # (watchdog traffic keeps the connection alive)
                     ("tick", 2), ("m", 1, "dwr"), ("tick", 2), ("m", 1, "dwr"), ("tick", 3), ("m", 1, "dwr")]))
    limits = (0, 1, 2, 3)
    for limit in limits:
        for outcome in OUTCOMES:
            script = [("accept",), ("m", 0, "cer_p0")] + [("m", 0, "req")] * (limit + 1) + [("tick", 1)]
            if outcome == "slow":
                script += [("tick", 7)]
            out.append((f"threading-limit{limit}-{outcome}", "threading", limit, outcome, ["refused"], script))
    return out


def make_behaviour(outcome):
    def behaviour(message):
        sid = getattr(message, "session_id", "") or ""
        if sid.startswith("probe"):
            return "answer"
        if outcome == "slow":
            return ("slow", 6)
        return outcome
    return behaviour


def inject(sc, kind):
    """Apply a fault to the scenario's main connection (the most recently created environment socket that is still open)."""
    nw = sc.nw
    cands = [s for s in nw.world.socks if s.kind in ("accepted", "dialled") and not s.closed and not s.eof]
    if not cands:
        return False
    fs = cands[-1]
    for s in sc.socks:
        if s.fs is fs:
            s.env_closed = kind in ("eof", "rst", "rderr", "eofacc")
    if kind == "eof":
        fs.eof = True
        nw.world.obs("env_eof", fs.sid)
    elif kind == "rst":
        fs.recv_err = errno.ECONNRESET
        nw.world.obs("env_reset", fs.sid)
    elif kind == "rderr":
        fs.recv_err = errno.ETIMEDOUT
        nw.world.obs("env_reset", fs.sid)
    elif kind == "wrerr":
        fs.send_plan.append(-errno.EPIPE)
        nw.world.obs("env_write_error", fs.sid)
    elif kind == "eofacc":
        # the peer hangs up and, in the same instant, another peer's connection attempt reaches the listener (the descriptor number of
        # the closed socket is handed to it when the node accepts it)
        fs.eof = True
        nw.world.obs("env_eof", fs.sid)

        def newcomer():
            if nw.world.listeners and not nw.world.listeners[0].closed:
                sc.max_socks = len(sc.socks) + 1
                k = len(sc.socks)
                ns = nw.accept(ip=f"10.0.9.{2 + k}", run=False)
                sc.socks.append(scenario.Sock(ns, "accepted", k))
                sc.socks[-1].newcomer = True
        ch = getattr(sc, "handover_chooser", None)
        if ch is not None:
            ch.after.append(newcomer)       # after the node has dealt with the close (second step of the fault)
        else:
            newcomer()
    elif kind == "connfail":
        if fs.connecting and not fs.conn_done:
            fs.resolve_connect(False)
            nw.world.obs("env_resolve", fs.sid, False)
        else:
            return False
    return True


FINE_POINTS = (("node", "Node", ("_receive_message", "receive_cer", "receive_cea", "receive_dwr", "receive_dwa", "receive_dpr", "receive_dpa", "_receive_app_request",
                                  "_receive_app_answer", "route_answer", "send_message", "_record_answer", "_generate_answer")),
               ("peer", "PeerConnection", ("work_read_queue", "work_write_queue", "add_out_msg")),
               ("application", "Application", ("send_answer", "receive_request")),
               ("application", "ThreadingApplication", ("_wait_for_recv_msg", "_wait_for_resp_msg", "_handle_request_thread", "receive_request")))


def _fine_points():
    import importlib
    pts = {}
    for modname, clsname, names in FINE_POINTS:
        cls = getattr(importlib.import_module(f"diameter.node.{modname}"), clsname)
        for n in names:
            if n in vars(cls):
                pts[sk.code_of(cls, n)] = None
    return pts


def run_scenario(spec, fault=None, cut=None, fine=False):
    """fault = (step number, kind) | None; cut = (script index, prefix class, kind) | None.
    fine: every source line of the message handlers, the connection workers and the application's answer path is a kernel step (so a
    fault can land in the middle of a handler), and the node's I/O thread reacts to the fault at once (mc/handover.py).
    Returns (steps at the end of the script, violations)."""
    name, kind, limit, outcome, start_plan, script = spec
    cfg = cfg_for(kind, limit, outcome)
    if name.endswith("/sctp"):
        cfg["node"]["transport"] = "sctp"       # the node listens on SCTP, its peers are SCTP peers (fake sctp module)
    ch = None
    sk.install()
    if fine:
        from .. import handover
        ch = handover.HandOverChooser("_handle_connections")
        sk.set_line_points(_fine_points())
    else:
        sk.set_line_points({})
    sc = scenario.Scenario(cfg, chooser=ch, max_socks=6, start_plan=list(start_plan), app_timeout=2)
    sc.handover_chooser = ch
    vs = []
    try:
        nw = sc.start()
        if kind == "threading":
            nw.apps[0].behaviour = make_behaviour(outcome)
        base = nw.world.steps
        if fault is not None:
            def hook():
                if inject(sc, fault[1]) and ch is not None:
                    ch.active = True
            nw.world.step_hooks[base + fault[0]] = hook
        nw.world.points_on = fine
        if name.endswith("/consumer-last"):
            nw.world.low_kind = "_wait_for_resp_msg"
        for i, ev in enumerate(script):
            if cut is not None and cut[0] == i and ev[0] == "m":
                s = sc.sock(ev[1])
                if s is not None:
                    data = sc.message(s, ev[2])
                    if data is not None:
                        n = {"0": 0, "hdr": 7, "hdr_end": 20, "body": min(len(data) - 1, 33), "last": len(data) - 1}[cut[1]]
                        nw.deliver(s.fs, data[:n])
                        inject(sc, cut[2])
                        nw.run()
                        sc.sync()
                continue
            sc.apply(ev)
        steps = nw.world.steps - base
        nw.world.step_hooks.clear()
        nw.world.points_on = False
        nw.world.low_kind = None
        if ch is not None:
            ch.active = False
        if kind == "hold":
            nw.apps[0].behaviour = "answer"     # from now on (the probe) requests are answered at once
        # a peer whose connection attempt arrived together with the fault sends its CER now and is served
        for s_ in list(sc.socks):
            if getattr(s_, "newcomer", False) and not s_.fs.closed and not s_.cer_sent:
                if sc.apply(("m", s_.idx, "cer_p0")):
                    ceas = [f for f in s_.out if not f.h.is_request and f.h.code == 257]
                    if not ceas or ceas[0].result_code != 2001:
                        vs.append(("newcomer-arriving-with-the-fault-not-served", f"[{name}] its CER got {ceas}"))
                    sc.apply(("eof", s_.idx))
        # let every timeout pass (connections of the consumer-last scenarios are kept alive by watchdog traffic meanwhile)
        for _ in range(9):
            sc.apply(("tick", 1))
            if name.endswith("/consumer-last"):
                for s_ in sc.socks:
                    if not s_.fs.closed and not s_.env_closed:
                        sc.apply(("m", s_.idx, "dwr"))
        # a connection that has survived everything: each request it sent to a handler that answers (at once, slowly, or by raising -
        # then the node answers 5012) has got its answer by now
        if kind in ("basic", "threading") and outcome in ("answer", "slow", "raise"):
            for s_ in sc.socks:
                if s_.fs.closed or s_.env_closed:
                    continue
                answered = {(f.h.hbh, f.h.e2e) for f in s_.out if not f.h.is_request}
                lost = [f for f in s_.inreq if f.h.code == 271 and (f.h.hbh, f.h.e2e) not in answered]
                if lost:
                    vs.append(("request-on-a-surviving-connection-never-answered", f"[{name}] socket {s_.idx}: {lost[:3]}"))
        vs += service_probe(sc, limit, f"{name}")
        if name in ("outbound-handshake", "outbound-handshake-in-progress", "outbound-handshake/sctp"):
            vs += outbound_probe(sc, name)
        return steps, vs
    except sk.Livelock as e:
        return 0, [("livelock:node-threads-never-reach-quiescence", f"{e}")]
    finally:
        sc.close()
        if fine:
            sk.set_line_points({})


def service_probe(sc, limit, ctx):
    """A fresh peer connects, completes CE and has limit+2 requests delivered to the handler and answered."""
    nw = sc.nw
    vs = []
    for name, tkind, exc in nw.thread_failures():
        vs.append((f"worker-thread-terminated-abnormally:{tkind or name.split()[0]}:{exc.split('(')[0]}", f"{name}: {exc}"))
    live_kinds = [t.kind for t in nw.world.live_threads()]
    for k in LONG_LIVED:
        need = k in ("_handle_connections", "_collect_stats") or (k.startswith("_wait_for") and hasattr(nw.apps[0], "_recv_queue_consumer"))
        if need and k not in live_kinds:
            vs.append((f"long-lived-worker-no-longer-running:{k}", f"live thread kinds: {sorted(set(map(str, live_kinds)))}"))
    sc.max_socks = len(sc.socks) + 1
    if not sc.apply(("accept",)):
        vs.append(("probe:cannot-connect", "accept not possible"))
        return vs
    c = len(sc.socks) - 1
    s = sc.socks[c]
    if not sc.apply(("m", c, "cer_p1")):
        vs.append(("probe:cannot-send-CER", ""))
        return vs
    cea = [f for f in s.out if not f.h.is_request and f.h.code == 257]
    if not cea or cea[0].result_code != 2001:
        vs.append(("probe:capabilities-exchange-not-completed", f"frames {s.out}"))
        return vs
    n_req = limit + 2
    before = len(nw.requests)
    sent = []
    # like a restarted client, the probe first reuses identifier pairs that earlier (lost) connections had in flight
    reuse = []
    never_answered = []     # (hbh, e2e, origin host) of requests of earlier connections for which the node neither wrote nor accepted an answer
    for s_old in sc.socks[:c]:
        answered_old = {f.h.ident() for f in s_old.out if not f.h.is_request}
        for f in s_old.inreq:
            if (f.h.hbh, f.h.e2e) not in reuse and f.h.code == 271:
                reuse.append((f.h.hbh, f.h.e2e))
                if f.h.ident() not in answered_old and (f.h.hbh, f.h.e2e) not in nw.answers_accepted and f.get(264):
                    never_answered.append((f.h.hbh, f.h.e2e, f.get(264).decode()))
    # as RFC 6733 5.5.4 prescribes after a failover, the client first re-sends what was never answered, with the T flag and the
    # original identifiers and Origin-Host (the probe connection relays for that host): never answered means not a duplicate
    for hbh, e2e, origin in never_answered[:2]:
        b4 = len(nw.requests)
        d = env.acr(host=origin, hbh=hbh, e2e=e2e, session="probe;retransmit", flags=0x80 | 0x40 | 0x10)
        nw.deliver(s.fs, d)
        sc.sync()
        for _ in range(3):
            sc.apply(("tick", 1))
        got = [f.result_code for f in s.out if not f.h.is_request and f.h.code == 271 and (f.h.hbh, f.h.e2e) == (hbh, e2e)]
        if len(nw.requests) == b4 or got != [2001]:
            vs.append(("probe:retransmission-of-a-never-answered-request-not-served", f"T-flagged request {hbh:#x}/{e2e:#x} of {origin}: "
                       f"delivered to a handler: {len(nw.requests) > b4}, answers {got}"))
        before = len(nw.requests)
    base_out = len(s.out)
    for k in range(n_req):
        hbh, e2e = reuse[k] if k < len(reuse) else (0x9000 + k, 0xa000 + k)
        d = env.acr(host="peer2.example.org", hbh=hbh, e2e=e2e, session=f"probe;{k}")
        sent.append(rc.Frame(d))
        nw.deliver(s.fs, d)
        sc.sync()
    for _ in range(3):
        sc.apply(("tick", 1))
    delivered = [(m.header.hop_by_hop_identifier) for a, m in nw.requests[before:]]
    answers = {(f.h.hbh, f.h.e2e): f.result_code for f in s.out[base_out:] if not f.h.is_request and f.h.code == 271}
    missing = [f for f in sent if f.h.hbh not in delivered]
    unanswered = [f for f in sent if answers.get((f.h.hbh, f.h.e2e)) != 2001]
    if missing:
        vs.append((f"probe:request-not-delivered-to-the-handler", f"{len(missing)} of {n_req} probe requests not delivered; answers {answers}"))
    if unanswered:
        codes = sorted({str(answers.get((f.h.hbh, f.h.e2e))) for f in unanswered})
        vs.append((f"probe:request-not-answered-2001:got={'/'.join(codes)}", f"{len(unanswered)} of {n_req} probe requests; answers {answers}"))
    for name, tkind, exc in nw.thread_failures():
        key = f"worker-thread-terminated-abnormally:{tkind or name.split()[0]}:{exc.split('(')[0]}"
        if not any(k == key for k, _ in vs):
            vs.append((key, f"{name}: {exc} (during the probe)"))
    # capacity: every connection owns two worker threads; connections the node no longer lists must not have any left (all of them
    # ended at least 9 s ago, the workers' poll interval is 5 s)
    workers = [t.kind for t in nw.world.live_threads() if t.kind in ("work_read_queue", "work_write_queue")]
    listed = len(nw.node.connections)
    if len(workers) > 2 * listed:
        vs.append(("capacity:worker-threads-of-ended-connections-still-running",
                   f"{len(workers)} connection worker threads alive, the node lists {listed} connection(s)"))
    return vs


def outbound_probe(sc, ctx):
    """The persistent peer the node dials itself: when the faults have cost it its connection (no DPR was involved), the node dials it
    again once the reconnect wait is over, completes the capabilities exchange and serves a request over the new connection."""
    nw = sc.nw
    vs = []
    dialled = [s for s in sc.socks if s.kind == "dialled"]
    if not dialled:
        return vs
    if any(not s.fs.closed and not s.env_closed for s in dialled):
        return vs       # the connection has survived (or its handshake is still open): nothing to re-establish
    if any(f.h.code == 282 for s in dialled for f in s.inreq):
        return vs
    n0 = len(sc.socks)
    nw.world.jump(601)
    nw.run()
    sc.sync()
    for _ in range(2):
        sc.apply(("tick", 1))
    new = [s for s in sc.socks[n0:] if s.kind == "dialled"]
    if not new:
        vs.append(("probe:persistent-peer-never-dialled-again-after-its-connection-was-lost", f"[{ctx}] {len(dialled)} earlier attempt(s), none 601 s after the loss"))
        return vs
    d = new[-1]
    if not sc.apply(("m", d.idx, "cea_ok")):
        vs.append(("probe:redialled-connection-sent-no-CER", f"[{ctx}] frames {d.out}"))
        return vs
    conn = nw.conn_of(d.fs)
    if conn is None or conn.state != 0x12:
        vs.append(("probe:redialled-connection-not-ready-after-its-CEA", f"[{ctx}] state {getattr(conn, 'state', None)}"))
        return vs
    # (this peer is not among the application's peers: as on a fresh node its request is answered 3007 by the node itself)
    if not sc.apply(("m", d.idx, "req")):
        vs.append(("probe:cannot-send-a-request-on-the-redialled-connection", f"[{ctx}]"))
        return vs
    for _ in range(2):
        sc.apply(("tick", 1))
    ans = [f.result_code for f in d.out if not f.h.is_request and f.h.code == 271]
    if ans != [3007]:
        vs.append(("probe:request-on-the-redialled-connection-not-answered-as-on-a-fresh-node", f"[{ctx}] answers {ans}, want [3007]"))
    return vs


def work(args):
    si, tier = args
    spec = scenarios(tier)[si]
    name = spec[0]
    out = {}
    n = 0
    steps, vs0 = run_scenario(spec)
    n += 1
    for k, d in vs0:
        out.setdefault(k + ":fault-free", (d, {"scenario": name, "fault": None}))
    stride = 1
    faults = FAULTS + (("connfail",) if "in-progress" in name else ())
    for step in range(0, steps + 1, stride):
        for fk in faults:
            n += 1
            _, vs = run_scenario(spec, fault=(step, fk))
            for k, d in vs:
                out.setdefault(k, (f"[{name}] fault {fk} before kernel step {step} of {steps}: {d}", {"scenario": name, "fault": [step, fk]}))
    # the same faults in the middle of the handlers: every source line of the handlers / workers is a step, the I/O thread reacts at once
    if name in FINE_SCENARIOS or tier == "thorough":
        fsteps, vsf = run_scenario(spec, fine=True)
        n += 1
        for k, d in vsf:
            out.setdefault(k + ":fault-free", (d, {"scenario": name, "fault": None, "fine": True}))
        for step in range(0, fsteps + 1):
            for fk in (("eof", "rst") if tier != "thorough" else faults) + (("eofacc",) if name in ("outbound-handshake-rejected", "inbound-handshake", "disconnect-peer") else ()):
                n += 1
                _, vs = run_scenario(spec, fault=(step, fk), fine=True)
                for k, d in vs:
                    out.setdefault(k, (f"[{name}] fault {fk} before line-granular step {step} of {fsteps}, I/O thread reacting at once: {d}",
                                       {"scenario": name, "fault": [step, fk], "fine": True}))
        steps = (steps, fsteps)
    script = spec[5]
    for i, ev in enumerate(script):
        if ev[0] != "m":
            continue
        for cls in ("0", "hdr", "hdr_end", "body", "last"):
            for fk in ("eof", "rst"):
                n += 1
                _, vs = run_scenario(spec, cut=(i, cls, fk))
                for k, d in vs:
                    out.setdefault(k, (f"[{name}] frame {i} ({ev[2]}) cut at class {cls} then {fk}: {d}", {"scenario": name, "cut": [i, cls, fk]}))
    return name, n, steps, [(k, d, c) for k, (d, c) in out.items()]


def work_pairs(args):
    """Thorough: every ordered pair of faults (second at every later step) for limits 0/1, outcomes answer/none."""
    si, tier = args
    spec = scenarios(tier)[si]
    name = spec[0]
    steps, _ = run_scenario(spec)
    out = {}
    n = 0
    cfgk = (spec[1], spec[2], spec[3])
    for s1 in range(0, steps + 1, 2):
        for f1 in ("eof", "wrerr"):
            for s2 in range(s1 + 1, steps + 1, 3):
                for f2 in ("eof", "rst"):
                    n += 1
                    _, vs = run_scenario_two(spec, (s1, f1), (s2, f2))
                    for k, d in vs:
                        out.setdefault(k, (f"[{name}] faults {f1}@{s1} then {f2}@{s2}: {d}", {"scenario": name, "faults": [[s1, f1], [s2, f2]]}))
    return name, n, steps, [(k, d, c) for k, (d, c) in out.items()]


def run_scenario_two(spec, fa, fb):
    name, kind, limit, outcome, start_plan, script = spec
    cfg = cfg_for(kind, limit, outcome)
    sc = scenario.Scenario(cfg, max_socks=6, start_plan=list(start_plan), app_timeout=2)
    try:
        nw = sc.start()
        if kind == "threading":
            nw.apps[0].behaviour = make_behaviour(outcome)
        base = nw.world.steps
        nw.world.step_hooks[base + fa[0]] = lambda: inject(sc, fa[1])
        nw.world.step_hooks[base + fb[0]] = lambda: inject(sc, fb[1])
        if name.endswith("/consumer-last"):
            nw.world.low_kind = "_wait_for_resp_msg"
        for ev in script:
            sc.apply(ev)
        # a second connection attempt after the first fault, hit by the second one
        nw.world.step_hooks.clear()
        nw.world.low_kind = None
        if kind == "hold":
            nw.apps[0].behaviour = "answer"     # from now on (the probe) requests are answered at once
        for _ in range(9):
            sc.apply(("tick", 1))
        return 0, service_probe(sc, limit, name)
    except sk.Livelock as e:
        return 0, [("livelock:node-threads-never-reach-quiescence", f"{e}")]
    finally:
        sc.close()


# ------------------------------------------------------------------ E4: answers of two pipelined requests vs the I/O loop's send
def sched_execute(limit, prefix):
    """Two requests arrive in one network read and are handled concurrently (threading application); their answers are queued, encoded by
    the connection's writer and flushed by the I/O thread in every interleaving (bounded) at line granularity in the writer, the
    queueing path and the send branch of the I/O loop.  Both requests must be answered, then a third one as well."""
    from .. import scheddfs
    from . import c15
    c15._set_points()
    ch = scheddfs.Chooser(prefix)
    cfg = cfg_for("threading", limit, "answer")
    sc = scenario.Scenario(cfg, chooser=ch, max_socks=2, start_plan=["refused"], app_timeout=2)
    try:
        nw = sc.start()
        sc.apply(("accept",))
        sc.apply(("m", 0, "cer_p0"))
        s = sc.socks[0]
        d = sc.message(s, "req") + sc.message(s, "req")
        nw.world.points_on = True
        ch.window = True
        nw.deliver(s.fs, d)
        ch.window = False
        nw.world.points_on = False
        sc.sync()
        sc.apply(("tick", 1))
        sc.apply(("m", 0, "req"))
        sc.apply(("tick", 2))
        answered = sorted((f.h.hbh, f.result_code) for f in s.out if not f.h.is_request and f.h.code == 271)
        sent = sorted(f.h.hbh for f in s.inreq if f.h.code == 271)
        return ((tuple(sent), tuple(answered), s.fs.closed, tuple(nw.thread_failures())), ch)
    finally:
        sc.close()
        sk.set_line_points({})


def sched_check(obs):
    sent, answered, closed, fails = obs
    vs = []
    if [h for h, rcode in answered if rcode == 2001] != list(sent) or closed:
        vs.append(("pipelined-requests-not-all-answered:under-some-schedule", f"requests {[hex(h) for h in sent]}, answers {[(hex(h), r) for h, r in answered]}, connection closed={closed}"))
    if fails:
        vs.append(("worker-thread-terminated-abnormally:under-some-schedule", f"{fails}"))
    return vs


def run(tier):
    rep = Report("C14", tier, "fault_enumeration")
    common.pool()
    specs = scenarios(tier)
    total = 0
    distinct = 0
    for name, n, steps, vs in common.pmap(work, [(i, tier) for i in range(len(specs))], chunksize=1):
        total += n
        distinct += n
        for k, d, c in vs:
            rep.add(Violation(k, d, c))
        rep.sample({"scenario": name, "kernel_steps": steps, "executions": n}, 40)
    if tier == "thorough":
        idx = [i for i, s in enumerate(specs) if s[1] == "basic" or (s[2] in (0, 1) and s[3] in ("answer", "none"))]
        for name, n, steps, vs in common.pmap(work_pairs, [(i, tier) for i in idx], chunksize=1):
            total += n
            distinct += n
            for k, d, c in vs:
                rep.add(Violation(k, d, c))
            rep.sample({"scenario": name + " (fault pairs)", "kernel_steps": steps, "executions": n}, 40)
    import functools
    from .. import scheddfs
    sb = 2 if tier == "thorough" else 1
    tasks = [(functools.partial(sched_execute, lim), sched_check, sb) for lim in (2, 0)]
    for lim, r in zip((2, 0), (scheddfs.explore_many(tasks) if tier != "thorough" else scheddfs.explore_many_capped(tasks, 1, 600))):
        total += r["executions"]
        distinct += r["executions"]
        for (key, detail), choices in r["violations"]:
            rep.add(Violation(key, f"[two pipelined requests, thread limit {lim}, bound {sb}] schedule {choices}: {detail}", {"sched": lim, "choices": choices}))
        rep.sample({"schedule_exploration": f"two pipelined requests, thread limit {lim}: handlers, writer and I/O loop at line granularity", "preemption_bound": sb,
                    "bound_completed_without_cap": r.get("bound_completed", sb), "capped": r.get("capped", False), "executions": r["executions"],
                    "distinct_outcomes": len(r["outcomes"]), "branching_points": r["max_points"]}, 60)
    rep.cov.update({"evaluations": total, "distinct_nontrivial": distinct, "scenarios": len(specs), "exhaustive": True,
                    "rule": "scenarios {inbound handshake, outbound handshake (immediate / in progress), request-answer with the basic application, odd traffic, "
                            "outbound request, watchdog, disconnect-peer, held answers, two connections, mutual dial, threading application with limit 0..3 x "
                            "handler outcome {answer, none, raises, slow}, two slow requests on two connections with the answer consumer scheduled last}; for each: every "
                            "kernel step x fault {eof, reset, read error, write error (+connect failure)} and every frame x byte-boundary class {0, inside header, "
                            "header end, inside body, last byte} x {eof, reset}; then all timeouts pass and a probe peer must complete CE and get limit+2 requests "
                            "delivered and answered 2001, requests of surviving connections answered, no worker thread of an ended connection left; for 11 scenarios "
                            "(thorough: all) additionally every fault at every source line of the message handlers / connection workers / answer path with the I/O "
                            "thread reacting at once; thorough adds ordered pairs of faults; every case is a distinct (scenario, point, fault)"})
    rep.assumptions += ["probe requests are always answered by the handler; the scenario's own requests get the configured outcome"]
    return rep.finish()


def replay(case):
    if "sched" in case:
        import functools
        from .. import scheddfs
        obs, ch = scheddfs.replay_choices(functools.partial(sched_execute, case["sched"]), case["choices"])
        return [Violation(k, d) for k, d in sched_check(obs)]
    for spec in scenarios("thorough"):
        if spec[0] == case.get("scenario"):
            if case.get("fault"):
                _, vs = run_scenario(spec, fault=tuple(case["fault"]), fine=bool(case.get("fine")))
            elif case.get("cut"):
                _, vs = run_scenario(spec, cut=tuple(case["cut"]))
            elif case.get("faults"):
                _, vs = run_scenario_two(spec, tuple(case["faults"][0]), tuple(case["faults"][1]))
            else:
                _, vs = run_scenario(spec)
            return [Violation(k, d) for k, d in vs]
    return []
