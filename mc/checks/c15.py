"""C15 - outbound bytes = queued messages concatenated FIFO, intact, exactly once.

E4: stateless schedule DFS (preemption bounded, source-line granularity in the writer, the
queueing path, Message.as_bytes and the send branch of the I/O loop) x enumerated partial-write /
soft-error plans for the fake socket's send().
"""
from __future__ import annotations

import ast
import errno
import functools
import inspect
import itertools
import textwrap

from .. import common, env, scenario, scheddfs, simkernel as sk
from ..common import Report, Violation

CFG = {
    "node": {"ips": ["10.0.0.1"], "tcp_port": 3868, "idle_timeout": 600, "dwa_timeout": 50, "wakeup": 5},
    "peers": [{"name": "peer1.example.org"}],
    "apps": [{"id": env.APP_ACCT, "acct": True, "peers": [0]}],
}
SEND_OPTS = {"1": 1, "half": (lambda data: max(1, len(data) // 2)), "EAGAIN": -errno.EAGAIN, "EINTR": -errno.EINTR, "ENOBUFS": -errno.ENOBUFS,
             "3": 3}


def _send_branch_lines(nn):
    """Line range of the `for wsock in ready_w` loop of Node._handle_connections (None = whole function)."""
    try:
        f = nn.Node._handle_connections
        src = textwrap.dedent(inspect.getsource(f))
        first = f.__code__.co_firstlineno
        for n in ast.walk(ast.parse(src)):
            if isinstance(n, ast.For) and isinstance(n.iter, ast.Name) and n.iter.id == "ready_w":
                return (n.lineno + first - 1, n.end_lineno + first - 1)
    except Exception:
        pass
    return None


def _set_points():
    import diameter.node.node as nn
    import diameter.node.peer as pp
    import diameter.message._base as mb
    sk.install()
    sk.set_line_points({
        sk.code_of(pp.PeerConnection, "work_write_queue"): None,
        sk.code_of(pp.PeerConnection, "add_out_msg"): None,
        sk.code_of(pp.PeerConnection, "remove_out_bytes"): None,
        sk.code_of(mb.Message, "as_bytes"): None,
        sk.code_of(nn.Node, "send_message"): None,
        sk.code_of(nn.Node, "_handle_connections"): _send_branch_lines(nn),
    })


def make_msgs(spec):
    """spec: tuple of kinds per message: 'ok' | 'bad' (its AVPs cannot be built) | 'bad2' (fails part-way through packing) | 'big'."""
    from diameter.message.commands import DeviceWatchdogRequest, AccountingRequest
    out = []
    for i, kind in enumerate(spec):
        if kind == "big":
            m = AccountingRequest()
            m.session_id = "s;%d" % i
            m.origin_host = b"node.example.org"
            m.origin_realm = b"example.org"
            m.destination_realm = b"example.org"
            m.accounting_record_type = 1
            m.accounting_record_number = i
            m.user_name = "u" * 300
        else:
            m = DeviceWatchdogRequest()
            m.origin_host = b"node.example.org"
            m.origin_realm = b"example.org"
            m.origin_state_id = 7 + i if kind in ("ok", "bad2", "badhdr") else "not-an-integer"
            if kind == "bad2":
                # fails while it is being packed, after its first AVPs have been packed: an AVP code that does not fit 32 bits
                from diameter.message.avp import Avp
                broken = Avp.new(1, value="user")
                broken.code = 1 << 40
                m.append_avp(broken)
        m.header.hop_by_hop_identifier = 0x100 + i
        m.header.end_to_end_identifier = 0x200 + i
        if kind == "badhdr":
            m.origin_state_id = 7 + i
            m.header.hop_by_hop_identifier = 2.5        # unencodable because of a header field, not of an AVP
        out.append(m)
    return out


def execute(cfg, prefix):
    spec, producers, plan = cfg
    _set_points()
    ch = scheddfs.Chooser(prefix)
    cfg_ = CFG
    if "sctp" in plan:
        # the connection is an SCTP association: the I/O loop writes through sctp_send (a branch of its own in the send path)
        import copy as _copy
        cfg_ = _copy.deepcopy(CFG)
        cfg_["node"]["transport"] = "sctp"
        plan = tuple(x for x in plan if x != "sctp")
    sc = scenario.Scenario(cfg_, chooser=ch, max_socks=1)
    try:
        nw = sc.start()
        sc.apply(("accept",))
        sc.apply(("m", 0, "cer_p0"))
        s = sc.socks[0]
        conn = nw.conn_of(s.fs)
        if conn is None or conn.state != 0x12:
            raise sk.HarnessError("set-up: connection not ready")
        base = len(s.fs.sent)
        if "pin" in plan:
            s.fs.pin_during_send = True     # other threads may run while send() holds the caller's buffer
            plan = tuple(x for x in plan if x != "pin")
        with_dpr = "DPR" in spec
        msgs = make_msgs(tuple(k for k in spec if k != "DPR"))
        stalled = None
        if "stall" in plan:
            # set-up (default schedule, not explored): the first message is queued, the peer takes a part of it and then stops reading -
            # the node is at rest with the remainder pending.  In the explored window the peer reads again in the very instant in which
            # the other messages are queued: the I/O thread resumes its partial write while the writer thread appends
            plan = tuple(x for x in plan if x != "stall")
            stalled = msgs[0]
            s.fs.send_plan.append(SEND_OPTS["half"])

            def stop_reading(fs, chunk):
                fs.send_blocked = True
                fs.on_sent = None
            s.fs.on_sent = stop_reading
            nw.node.send_message(conn, stalled)
            nw.run()
            if not s.fs.send_blocked or not len(conn.write_buffer):
                raise sk.HarnessError("set-up: no remainder pending behind a partial write")
            msgs = msgs[1:]
        for name in plan:
            s.fs.send_plan.append(SEND_OPTS[name])
        # split the messages over the producer threads round-robin
        shares = [msgs[i::producers] for i in range(producers)]

        # every message handed to this connection during the window, whoever queues it (producers, or the node's own reader answering
        # a DPR), with the kernel-order interval of its queueing call: only one simulated thread runs at a time
        allmsgs = ([stalled] if stalled is not None else []) + list(msgs)
        log = [("call", 0), ("ret", 0)] if stalled is not None else []
        orig_add = conn.add_out_msg

        def add_out_msg(m):
            if not any(m is x for x in allmsgs):
                allmsgs.append(m)
            k = next(i for i, x in enumerate(allmsgs) if x is m)
            log.append(("call", k))
            try:
                return orig_add(m)
            finally:
                log.append(("ret", k))
        conn.add_out_msg = add_out_msg

        def produce(lst):
            for m in lst:
                nw.node.send_message(conn, m)
        nw.world.points_on = True
        ch.window = True
        if stalled is not None:
            s.fs.send_blocked = False
        for i, lst in enumerate(shares):
            sk.spawn(functools.partial(produce, lst), f"producer{i}")
        if with_dpr:
            # the peer's DPR arrives in the same instant: its DPA is queued by the connection's reader thread
            nw.deliver(s.fs, sc.message(s, "dpr"), run=False)
        nw.run()
        ch.window = False
        nw.world.points_on = False
        nw.world.advance(6)
        nw.world.advance(6)
        enc = {}
        for i, m in enumerate(allmsgs):
            try:
                enc[i] = m.as_bytes()
            except Exception:
                pass
        # queueing order.  Exact when every message went through one queue of the connection (the shim records acceptance order);
        # otherwise the order of the queueing calls: a call that returned before another began comes first, overlapping calls
        # may go either way.
        queues = [v for v in vars(conn).values() if isinstance(v, sk.SimQueue) and all(any(m is a for a in v.accepted) for m in allmsgs)]
        got = bytes(s.fs.sent[base:])
        if len(queues) == 1:
            order = tuple(next(i for i, x in enumerate(allmsgs) if x is m) for m in queues[0].accepted if any(m is x for x in allmsgs))
            cands = [order]
        else:
            before = set()
            done = set()
            for what, i in log:
                if what == "call":
                    before |= {(d, i) for d in done}
                else:
                    done.add(i)
            called = sorted({i for _, i in log})
            cands = [p for p in itertools.permutations(called) if all(p.index(a) < p.index(b) for a, b in before)] or [tuple(called)]
            order = cands[0]
        expected = None
        for p in cands:
            e = b"".join(enc.get(i, b"") for i in p)
            if expected is None:
                expected = e
            if e == got:
                expected, order = e, p
                break
        left = len(conn.write_buffer)
        obs = (got == expected, tuple(order), len(got), len(expected), left, s.fs.closed and not with_dpr, tuple(nw.thread_failures()),
               got.hex() if got != expected else "", expected.hex() if got != expected else "")
        return obs, ch
    finally:
        sc.close()


CFG2 = {
    "node": {"ips": ["10.0.0.1"], "tcp_port": 3868, "idle_timeout": 600, "dwa_timeout": 50, "wakeup": 5},
    "peers": [{"name": "peer1.example.org"}, {"name": "peer2.example.org"}, {"name": "peer3.example.org"}],
    "apps": [{"id": env.APP_ACCT, "acct": True, "peers": [0, 1, 2]}],
}


def execute_multi(cfg, prefix):
    """Several ready connections have output pending in the same pass of the I/O loop (the I/O thread runs last: the kernel's second
    scheduling policy), each socket with its own plan of partial writes / soft errors.  cfg = (plans per connection, messages per
    connection, window): window=False runs the one default schedule of that policy, window=True explores schedules (bound given by the
    caller) under the first policy.  Oracle per connection: bytes accepted == concatenation of its messages' encodings in order."""
    plans, nmsg, window = cfg
    _set_points()
    ch = scheddfs.Chooser(prefix)
    sc = scenario.Scenario(CFG2, chooser=ch, max_socks=len(plans))
    try:
        nw = sc.start()
        conns = []
        for i in range(len(plans)):
            sc.apply(("accept",))
            sc.apply(("m", i, f"cer_p{i}"))
            conns.append(nw.conn_of(sc.socks[i].fs))
        if any(c is None or c.state != 0x12 for c in conns):
            raise sk.HarnessError("set-up: connections not ready")
        base = [len(s.fs.sent) for s in sc.socks]
        msgs = []
        for i, plan in enumerate(plans):
            ms = make_msgs(("ok",) * nmsg)
            for k, m in enumerate(ms):
                m.header.hop_by_hop_identifier = 0x1000 * (i + 1) + k
                m.origin_state_id = 100 * (i + 1) + k
            msgs.append(ms)
            for name in plan:
                sc.socks[i].fs.send_plan.append(SEND_OPTS[name])

        def produce(i):
            for m in msgs[i]:
                nw.node.send_message(conns[i], m)
        if not window:
            nw.world.low_kind = "_handle_connections"
        nw.world.points_on = window
        ch.window = window
        for i in range(len(plans)):
            sk.spawn(functools.partial(produce, i), f"producer{i}")
        nw.run()
        ch.window = False
        nw.world.points_on = False
        nw.world.low_kind = None
        nw.world.advance(6)
        nw.world.advance(6)
        res = []
        for i, s in enumerate(sc.socks):
            got = bytes(s.fs.sent[base[i]:])
            exp = b"".join(m.as_bytes() for m in msgs[i])
            res.append((got == exp, len(got), len(exp), len(conns[i].write_buffer), s.fs.closed, got.hex()[:120] if got != exp else "", exp.hex()[:120] if got != exp else ""))
        return (tuple(res), tuple(nw.thread_failures())), ch
    finally:
        sc.close()


def check_multi(obs):
    res, fails = obs
    vs = []
    for i, (ok, ngot, nexp, left, closed, got, exp) in enumerate(res):
        if closed:
            vs.append(("stream:several-connections:connection-closed-by-a-soft-write-error-or-partial-write", f"connection {i}"))
        elif not ok:
            what = "bytes-left-unsent-at-quiescence" if ngot < nexp and exp.startswith(got) else ("more-bytes-than-queued-(duplication)" if ngot > nexp else "bytes-differ-from-the-FIFO-concatenation")
            vs.append((f"stream:several-connections:{what}", f"connection {i}: sent {ngot} bytes, expected {nexp}, buffer holds {left}: {got} vs {exp}"))
        elif left:
            vs.append(("stream:several-connections:write-buffer-not-empty-at-quiescence", f"connection {i}: {left} bytes left"))
    if fails:
        vs.append(("stream:worker-thread-died", f"{fails}"))
    return vs


def configs_multi(tier):
    out = []
    single = [(), ("1",), ("half",), ("3",), ("EAGAIN",), ("EINTR",), ("ENOBUFS",), ("half", "EAGAIN"), ("EAGAIN", "1")]
    for a in single:
        for b in single:
            out.append((((a, b), 2, False), 0))
    for a, b, c in (((), ("half",), ("EAGAIN",)), (("1",), ("EINTR",), ("half",)), (("EAGAIN",), ("3",), ())):
        out.append((((a, b, c), 2, False), 0))
    out.append((((("half",), ("EAGAIN",)), 1, True), 1 if tier != "thorough" else 2))
    return out


def check(obs):
    ok, order, ngot, nexp, left, closed, fails, got, exp = obs
    vs = []
    if closed:
        vs.append(("stream:connection-closed-by-a-soft-write-error-or-partial-write", f"order {order}"))
    elif not ok:
        if ngot < nexp and exp.startswith(got):
            vs.append(("stream:bytes-left-unsent-at-quiescence", f"order {order}: sent {ngot} of {nexp} bytes, write buffer holds {left}"))
        elif ngot > nexp:
            vs.append(("stream:more-bytes-than-queued-(duplication)", f"order {order}: sent {ngot} bytes, expected {nexp}: {got[:160]} vs {exp[:160]}"))
        else:
            vs.append(("stream:bytes-differ-from-the-FIFO-concatenation", f"order {order}: sent {ngot} bytes, expected {nexp}: {got[:160]} vs {exp[:160]}"))
    elif left:
        vs.append(("stream:write-buffer-not-empty-at-quiescence", f"{left} bytes left"))
    if fails:
        vs.append(("stream:worker-thread-died", f"{fails}"))
    return vs


def configs(tier):
    out = []
    plans1 = [()] + [(a,) for a in SEND_OPTS]
    plans2 = [p for p in itertools.product(SEND_OPTS, repeat=2)]
    plans3 = [p for p in itertools.product(("1", "half", "EAGAIN", "EINTR"), repeat=3)]
    bound_hi = 3 if tier == "thorough" else 2
    # two messages, one producer: full bound on the empty plan and single deviations; bound 1 on two deviations
    for p in plans1:
        out.append(((("ok", "ok"), 1, p), bound_hi if not p or tier == "thorough" else 2))
    for p in plans2:
        out.append(((("ok", "ok"), 1, p), 1 if tier != "thorough" else 2))
    # an unencodable message between two good ones; two and three producers
    out.append(((("ok", "bad", "ok"), 1, ()), 2))
    out.append(((("ok", "ok", "ok"), 1, ()), 2))
    out.append(((("ok", "bad2", "ok", "ok"), 1, ()), 1))
    out.append(((("ok", "badhdr", "ok"), 1, ()), 1))
    out.append(((("ok", "ok"), 1, ("pin",)), 2))
    # a remainder is pending behind a partial write when the next messages are queued and the peer reads again
    out.append(((("ok", "ok"), 1, ("sctp",)), 1))
    out.append(((("ok", "ok"), 1, ("sctp", "half")), 2))
    out.append(((("ok", "bad", "ok"), 1, ("sctp", "1", "EAGAIN")), 1))
    out.append(((("ok", "ok"), 2, ("sctp", "EINTR")), 1))
    out.append(((("ok", "ok"), 1, ("stall",)), 2))
    out.append(((("ok", "ok", "ok"), 1, ("stall", "1")), 1 if tier != "thorough" else 2))
    out.append(((("ok", "bad", "ok"), 1, ("stall",)), 1 if tier != "thorough" else 2))
    out.append(((("ok", "ok", "ok"), 1, ("pin", "half")), 1))
    out.append(((("badhdr", "ok"), 2, ("half",)), 0))
    out.append(((("ok", "ok", "DPR"), 1, ()), 1))
    out.append(((("ok", "ok", "DPR"), 2, ("half",)), 1))
    out.append(((("bad2", "ok"), 2, ("half",)), 1))
    out.append(((("ok", "bad", "ok"), 1, ("1",)), 1 if tier != "thorough" else 2))
    out.append(((("bad", "ok"), 2, ("half",)), 1 if tier != "thorough" else 2))
    out.append(((("ok", "ok"), 2, ()), 2))
    out.append(((("ok", "ok", "ok"), 3, ()), 1 if tier != "thorough" else 2))
    out.append(((("ok", "big", "ok", "bad"), 2, ("half", "EAGAIN")), 1))
    if tier == "thorough":
        for p in plans3:
            out.append(((("ok", "ok"), 1, p), 1))
        out.append(((("ok", "ok", "ok", "ok"), 2, ("1", "half")), 1))
    return out


def run(tier):
    rep = Report("C15", tier, "model_checking")
    common.pool()
    cfgs = configs("quick")
    results = scheddfs.explore_many([(functools.partial(execute, c), check, b) for c, b in cfgs])
    if tier == "thorough":
        # the quick tier's configurations are complete; the larger bounds / longer plans of the thorough tier get 1500 s of wall time
        quick = set(cfgs)
        extra = [cb for cb in configs("thorough") if cb not in quick]
        res2 = scheddfs.explore_many([(functools.partial(execute, c), check, b) for c, b in extra], time_cap=1500)
        for r, (c, b) in zip(res2, extra):
            r["bound_completed"] = b if not r["capped"] else None
        cfgs = cfgs + extra
        results = results + res2
    mcfgs = configs_multi(tier)
    mres = scheddfs.explore_many([(functools.partial(execute_multi, c), check_multi, b) for c, b in mcfgs])
    mexecs = 0
    for (c, b), r in zip(mcfgs, mres):
        mexecs += r["executions"]
        for (key, detail), choices in r["violations"]:
            rep.add(Violation(key, f"send-plans per connection {c[0]}, {c[1]} messages each, {'schedules explored' if c[2] else 'I/O thread scheduled last'} bound {b} schedule {choices}: {detail}",
                              {"multi": [[list(p) for p in c[0]], c[1], c[2]], "choices": choices}))
    rep.sample({"several_connections_with_output_pending_in_one_pass": len(mcfgs), "executions": mexecs,
                "send_plans": "9 x 9 plans on two connections, 3 triples on three connections (I/O thread last), one pair with schedule exploration"}, 60)
    execs = mexecs
    outcomes = 0
    maxpts = 0
    for (c, b), r in zip(cfgs, results):
        execs += r["executions"]
        outcomes += len(r["outcomes"])
        maxpts = max(maxpts, r["max_points"])
        for (key, detail), choices in r["violations"]:
            rep.add(Violation(key, f"messages {c[0]} producers {c[1]} send-plan {c[2]} bound {b} schedule {choices}: {detail}",
                              {"cfg": [list(c[0]), c[1], list(c[2])], "choices": choices}))
        rep.sample({"messages": c[0], "producers": c[1], "send_plan": c[2], "preemption_bound": b, "bound_completed_without_cap": r.get("bound_completed", b), "capped": r.get("capped", False), "executions": r["executions"],
                    "distinct_outcomes": len(r["outcomes"]), "branching_points": r["max_points"]}, 60)
    rep.cov.update({"states": execs, "transitions": execs, "traces_validated_against_impl": execs, "schedules": execs, "configurations": len(cfgs),
                    "distinct_outcomes_total": outcomes, "max_branching_points": maxpts,
                    "explanation": "every schedule with at most the stated preemptions of producers, the connection's writer thread and the node's I/O thread at "
                                   "source-line granularity, for every send() plan of up to 2 (quick) / 3 (thorough) non-default answers out of {1 byte, 3 bytes, "
                                   "half, EAGAIN, EINTR, ENOBUFS}; oracle: bytes accepted by the socket == concatenation of the encodings in queue-acceptance order"})
    rep.assumptions += ["a source line without a traced call is atomic", "queueing order = acceptance order of the connection's queue as recorded by the queue shim when every message passes through it, else the order of non-overlapping queueing calls"]
    return rep.finish()


def replay(case):
    if "multi" in case:
        from .c16 import _replay_choices
        cfg = (tuple(tuple(p) for p in case["multi"][0]), case["multi"][1], case["multi"][2])
        obs, ch = _replay_choices(functools.partial(execute_multi, cfg), case["choices"])
        return [Violation(k, d) for k, d in check_multi(obs)]
    cfg = (tuple(case["cfg"][0]), case["cfg"][1], tuple(case["cfg"][2]))
    from .c16 import _replay_choices
    obs, ch = _replay_choices(functools.partial(execute, cfg), case["choices"])
    return [Violation(k, d) for k, d in check(obs)]
