"""C16 - identifier generators: unique, non-zero, wrap to 1, also under concurrency.

E4 (schedule DFS, line granularity inside the generators) + a deterministic sweep of the
sequential contract + the generators as used by the node (two callers in
Application.send_request on one connection; send_dwr || send_request).
"""
from __future__ import annotations

import functools
import re

from .. import common, env, scheddfs, simkernel as sk
from ..common import Report, Violation

MAX32 = 0xffffffff
MAX64 = 0xffffffffffffffff


def _hh():
    import diameter.node._helpers as hh
    return hh


def _set_points():
    hh = _hh()
    import diameter.node.node as nn
    import diameter.node.application as aa
    sk.install()
    pts = {}
    for cls in (hh.SequenceGenerator, hh.SessionGenerator):
        # every function of the generator classes (helpers that a refactoring adds included), not only the two entry points
        for c in cls.__mro__[:-1]:
            for v in vars(c).values():
                f = v.fget if isinstance(v, property) else getattr(v, "__func__", v)
                if hasattr(f, "__code__") and f.__name__ != "__init__":
                    pts[f.__code__] = None
    pts.update({
        sk.code_of(nn.Node, "route_request"): None,
        sk.code_of(nn.Node, "send_dwr"): None,
        sk.code_of(aa.Application, "send_request"): None,
    })
    sk.set_line_points(pts)


def succ(v, mx):
    return 1 if v == mx else v + 1


# ------------------------------------------------------------------ E4 on bare generators
def gen_execute(cfg, prefix):
    kind, nthreads, draws, start = cfg
    _set_points()
    hh = _hh()
    ch = scheddfs.Chooser(prefix)
    w = sk.World(chooser=ch, rand_plan=[start])
    try:
        if kind == "seq":
            g = hh.SequenceGenerator()
            f = g.next_sequence
        else:
            g = hh.SessionGenerator("n.example.org")
            f = g.next_id
        out = [[] for _ in range(nthreads)]

        def body(i):
            for _ in range(draws):
                out[i].append(f())
        w.points_on = True
        ch.window = True
        for i in range(nthreads):
            sk.spawn(functools.partial(body, i), f"draw{i}")
        w.run()
        ch.window = False
        w.points_on = False
        excs = [repr(t.exc) for t in w.threads if t.exc is not None]
        return (kind, start, tuple(tuple(o) for o in out), tuple(excs)), ch
    finally:
        w.shutdown()


def sess_value(s):
    parts = s.split(";")
    return int(parts[2] + parts[3], 16)


def gen_check(obs):
    kind, start, outs, excs = obs
    vs = []
    if excs:
        vs.append((f"gen:{kind}:thread-exception", f"{excs}"))
    vals = [v for o in outs for v in o]
    if kind == "sess":
        try:
            vals = [sess_value(v) for v in vals]
        except Exception as e:
            return vs + [(f"gen:sess:format", f"{outs}: {e}")]
    mx = MAX32 if kind == "seq" else MAX64
    exp = []
    c = start % (mx + 1)
    for _ in vals:
        c = succ(c, mx)
        exp.append(c)
    if len(set(vals)) != len(vals):
        vs.append((f"gen:{kind}:duplicate-under-concurrency", f"start={start:#x} returned {outs}"))
    elif 0 in vals:
        vs.append((f"gen:{kind}:zero", f"start={start:#x} returned {outs}"))
    elif sorted(vals) != sorted(exp):
        vs.append((f"gen:{kind}:not-successors", f"start={start:#x} returned {outs}, expected set {exp}"))
    return vs


# ------------------------------------------------------------------ E4 on the node's use of them
def node_execute(cfg, prefix):
    scenario, ncallers = cfg
    _set_points()
    ch = scheddfs.Chooser(prefix)
    ncfg = {"node": {"idle_timeout": 3, "dwa_timeout": 50, "wakeup": 1},
            "peers": [{"name": "peer1.example.org"}],
            "apps": [{"id": env.APP_ACCT, "acct": True, "peers": [0]}]}
    nw = env.NodeWorld(ncfg, chooser=ch)
    w = nw.world
    try:
        s, cea = env.handshake_in(nw)
        if cea is None or cea.result_code != 2001:
            raise sk.HarnessError("set-up handshake failed")
        from diameter.message.commands import AccountingRequest
        results = []

        def caller(i):
            m = AccountingRequest()
            m.session_id = f"s;{i}"
            m.origin_host = b"node.example.org"
            m.origin_realm = b"example.org"
            m.destination_realm = b"example.org"
            m.accounting_record_type = 1
            m.accounting_record_number = i
            m.acct_application_id = env.APP_ACCT
            try:
                nw.apps[0].send_request(m, timeout=1)
            except Exception as e:
                results.append(type(e).__name__)
        if scenario == "dwr":
            w.jump(4)          # idle timeout exceeded: the I/O thread's timer check is due now
        w.points_on = True
        ch.window = True
        for i in range(ncallers):
            sk.spawn(functools.partial(caller, i), f"caller{i}")
        w.run()
        ch.window = False
        w.points_on = False
        w.advance(3)
        reqs = [f for f in nw.frames(s) if f.h.is_request]
        ids = tuple((f.h.code, f.h.hbh, f.h.e2e) for f in reqs)
        return (scenario, ids, tuple(nw.thread_failures())), ch
    finally:
        nw.close()


def node_check(obs):
    scenario, ids, fails = obs
    vs = []
    hbh = [h for _, h, _ in ids]
    e2e = [e for _, _, e in ids]
    if len(set(hbh)) != len(hbh) or 0 in hbh:
        vs.append((f"node:{scenario}:duplicate-or-zero-hop-by-hop-on-one-connection", f"requests on the wire {ids}"))
    if len(set(e2e)) != len(e2e) or 0 in e2e:
        vs.append((f"node:{scenario}:duplicate-or-zero-end-to-end", f"requests on the wire {ids}"))
    return vs


def multi_execute(nconn, prefix):
    """`nconn` ready connections pass their idle time-out in the same instant: one pass of the I/O loop sends a watchdog request on
    each of them while the connections' writer threads have not encoded anything yet; answered, and a second round.  Every schedule
    within the bound at line granularity in send_dwr / send_message / the writers; oracle: identifiers as they appear on the wire."""
    from .. import scenario
    import diameter.node.node as nn
    import diameter.node.peer as pp
    _set_points()
    sk.set_line_points({sk.code_of(nn.Node, "send_dwr"): None, sk.code_of(nn.Node, "send_message"): None, sk.code_of(nn.Node, "_check_timers"): None,
                        sk.code_of(pp.PeerConnection, "work_write_queue"): None, sk.code_of(pp.PeerConnection, "add_out_msg"): None})
    ch = scheddfs.Chooser(prefix)
    cfg = {"node": {"ips": ["10.0.0.1"], "tcp_port": 3868, "idle_timeout": 3, "dwa_timeout": 50, "wakeup": 1},
           "peers": [{"name": f"peer{i + 1}.example.org"} for i in range(nconn)],
           "apps": [{"id": env.APP_ACCT, "acct": True, "peers": list(range(nconn))}]}
    sc = scenario.Scenario(cfg, chooser=ch, max_socks=nconn)
    try:
        nw = sc.start()
        for i in range(nconn):
            sc.apply(("accept",))
            sc.apply(("m", i, f"cer_p{i}"))
        ids = []
        for rnd in range(2):
            nw.world.jump(4)
            nw.world.points_on = True
            ch.window = rnd == 0
            nw.run()
            ch.window = False
            nw.world.points_on = False
            sc.sync()
            for i in range(nconn):
                sc.apply(("m", i, "dwa"))
        for s in sc.socks:
            for f in s.out:
                if f.h.is_request and f.h.code == 280:
                    ids.append((s.idx, f.h.hbh, f.h.e2e))
        return ("dwr-on-%d-connections" % nconn, tuple(ids), tuple(nw.thread_failures())), ch
    finally:
        sc.close()


def multi_check(obs):
    scenario_, ids, fails = obs
    vs = []
    e2e = [e for _, _, e in ids]
    if len(set(e2e)) != len(e2e) or 0 in e2e:
        vs.append((f"node:{scenario_}:duplicate-or-zero-end-to-end", f"watchdog requests on the wire (connection, hop-by-hop, end-to-end): {ids}"))
    per = {}
    for c, h, _ in ids:
        per.setdefault(c, []).append(h)
    if any(len(set(h)) != len(h) or 0 in h for h in per.values()):
        vs.append((f"node:{scenario_}:duplicate-or-zero-hop-by-hop-on-one-connection", f"{ids}"))
    if len(ids) != 2 * len(per) or len(per) == 0:
        vs.append((f"node:{scenario_}:not-one-watchdog-request-per-connection-and-round", f"{ids}"))
    if fails:
        vs.append((f"node:{scenario_}:thread-died", f"{fails}"))
    return vs


def retry_sequence():
    """A request that could not be routed (no ready peer) is submitted again later, after another request has gone out: every request
    on the wire has its own end-to-end and hop-by-hop identifier.  One deterministic history."""
    from .. import scenario
    _set_points()
    sk.set_line_points({})
    cfg = {"node": {"ips": ["10.0.0.1"], "tcp_port": 3868, "idle_timeout": 600, "dwa_timeout": 50, "wakeup": 1},
           "peers": [{"name": "peer1.example.org"}], "apps": [{"id": env.APP_ACCT, "acct": True, "peers": [0]}]}
    sc = scenario.Scenario(cfg, max_socks=1, app_timeout=1)
    vs = []
    try:
        nw = sc.start()
        from diameter.message.commands import AccountingRequest
        outcomes = []

        def mk(i):
            m = AccountingRequest()
            m.session_id = f"retry;{i}"
            m.origin_host = b"node.example.org"
            m.origin_realm = b"example.org"
            m.destination_realm = b"example.org"
            m.accounting_record_type = 1
            m.accounting_record_number = i
            m.acct_application_id = env.APP_ACCT
            return m
        m1, m2, m3 = mk(1), mk(2), mk(3)

        def send(m):
            def caller():
                try:
                    nw.apps[0].send_request(m, timeout=1)
                    outcomes.append("answer")
                except Exception as e:
                    outcomes.append(type(e).__name__)
            sk.spawn(caller, "caller")
            nw.run()
            sc.apply(("tick", 2))
        send(m1)                        # no peer is connected: not routable
        sc.apply(("accept",))
        sc.apply(("m", 0, "cer_p0"))
        send(m2)                        # goes out
        send(m1)                        # the application tries the first message again
        send(m3)
        reqs = [(f.h.hbh, f.h.e2e) for f in sc.socks[0].out if f.h.is_request and f.h.code == 271]
        e2e = [e for _, e in reqs]
        hbh = [h for h, _ in reqs]
        if outcomes[:1] != ["NotRoutable"] or len(reqs) != 3:
            vs.append(("node:retry-after-NotRoutable:unexpected-course", f"outcomes {outcomes}, requests on the wire {reqs}"))
        if len(set(e2e)) != len(e2e) or 0 in e2e:
            vs.append(("node:retry-after-NotRoutable:duplicate-or-zero-end-to-end", f"requests on the wire (hop-by-hop, end-to-end): {reqs}"))
        if len(set(hbh)) != len(hbh) or 0 in hbh:
            vs.append(("node:retry-after-NotRoutable:duplicate-or-zero-hop-by-hop-on-one-connection", f"{reqs}"))
        return vs
    finally:
        sc.close()


def mixed_senders(args):
    """`n` ready connections of peers that all serve one application, their hop-by-hop generators starting at the SAME value (the start
    is random, so equal starts are possible); the selection callback picks peer `k`.  Own request, then a watchdog round on every
    connection, then another own request: on each connection every request on the wire (the application's and the node's own) has its
    own non-zero hop-by-hop identifier.  One deterministic history per (n, k)."""
    n, k = args
    from .. import scenario
    _set_points()
    sk.set_line_points({})
    cfg = {"node": {"ips": ["10.0.0.1"], "tcp_port": 3868, "idle_timeout": 3, "dwa_timeout": 50, "wakeup": 1},
           "peers": [{"name": f"peer{i + 1}.example.org"} for i in range(n)],
           "apps": [{"id": env.APP_ACCT, "acct": True, "peers": list(range(n))}]}
    sc = scenario.Scenario(cfg, max_socks=n, app_timeout=1, rand_plan=[0x10, 0x20] + [0x5000] * n)
    vs = []
    try:
        nw = sc.start()
        for i in range(n):
            sc.apply(("accept",))
            sc.apply(("m", i, f"cer_p{i}"))
        peers = list(nw.peers)
        nw.node.peer_route_select_func = lambda node, app, message, usable: ([p for p in usable if p is peers[k]] or usable)[0]
        from diameter.message.commands import AccountingRequest

        def send(i):
            m = AccountingRequest()
            m.session_id = f"mixed;{i}"
            m.origin_host = b"node.example.org"
            m.origin_realm = b"example.org"
            m.destination_realm = b"example.org"
            m.accounting_record_type = 1
            m.accounting_record_number = i
            m.acct_application_id = env.APP_ACCT

            def caller():
                try:
                    nw.apps[0].send_request(m, timeout=1)
                except Exception:
                    pass
            sk.spawn(caller, "caller")
            nw.run()
        send(1)
        nw.world.jump(4)
        nw.run()
        sc.sync()
        for i in range(n):
            sc.apply(("m", i, "dwa"))
        send(2)
        sc.apply(("tick", 2))
        per = {s.idx: [(f.h.code, f.h.hbh) for f in s.out if f.h.is_request and f.h.code != 257] for s in sc.socks}
        for c, reqs in per.items():
            h = [x for _, x in reqs]
            if len(set(h)) != len(h) or 0 in h:
                vs.append(("node:own-requests-and-watchdogs-on-connections-with-equal-start-values:duplicate-or-zero-hop-by-hop-on-one-connection",
                           f"{n} connections, selection picks peer {k}: requests on connection {c} (command, hop-by-hop): {reqs}"))
        if sum(1 for reqs in per.values() for c, _ in reqs if c == 271) != 2:
            vs.append(("node:own-requests-and-watchdogs-on-connections-with-equal-start-values:unexpected-course", f"{per}"))
        return vs
    finally:
        sc.close()


# ------------------------------------------------------------------ sequential sweep
def sweep(rep: Report):
    hh = _hh()
    sk.install()
    n = 0
    w = sk.World()
    try:
        for start in (1, 2, 0x7fffffff, MAX32 - 3, MAX32 - 2, MAX32 - 1, MAX32):
            w.rand_plan.clear()
            w.rand_plan.append(start)
            g = hh.SequenceGenerator()
            cur = start
            for k in range(8):
                v = g.next_sequence()
                cur = succ(cur, MAX32)
                n += 1
                if v != cur or v == 0 or g.sequence != v:
                    rep.add(Violation("seq:sequential-successor", f"start={start:#x} draw {k}: got {v:#x} want {cur:#x}",
                                      {"kind": "seq-sweep", "start": start}))
                    break
        for start in (0, 1, MAX64 - 2, MAX64 - 1, MAX64, 0x1234567890abcdef):
            w.rand_plan.clear()
            w.rand_plan.append(start)
            w.now = 1_700_000_123.0
            g = hh.SessionGenerator("host.example.org")
            cur = start
            for k in range(6):
                opt = () if k % 2 == 0 else ("u@h", "x")
                s = g.next_id(*opt)
                cur = succ(cur, MAX64)
                n += 1
                want = f"host.example.org;{1_700_000_123:08x};{cur >> 32:08x};{cur & MAX32:08x}" + "".join(";" + o for o in opt)
                if s != want:
                    rep.add(Violation("sess:format-or-successor", f"start={start:#x} draw {k}: got {s!r} want {want!r}",
                                      {"kind": "sess-sweep", "start": start}))
                    break
                if not re.fullmatch(r"[^;]+;[0-9a-f]{8};[0-9a-f]{8};[0-9a-f]{8}(;[^;]+)*", s):
                    rep.add(Violation("sess:format", f"{s!r}", {"kind": "sess-sweep", "start": start}))
        # end-to-end initialisation: low 12 bits of the start time in the high 12 bits
        stamps = [1, 0xfff, 0x1000, 0x1001, 1_700_000_000, 1_700_000_000 + 0xabc, 0x7fffffff, 0xffffffff,
                  0x100000000 + 5] + [1_700_000_000 + i for i in range(0, 4096, 97)]
        for t in stamps:
            for low in (1, 0x12345, 0xfffff):
                w.rand_plan.clear()
                w.rand_plan.append(low)
                g = hh.SequenceGenerator(include_now=t)
                n += 1
                if g.sequence >> 20 != (t & 0xfff) or g.sequence & 0xfffff != low or not 0 < g.sequence <= MAX32:
                    rep.add(Violation("seq:end-to-end-init-bits", f"include_now={t:#x} low={low:#x} gives {g.sequence:#x}",
                                      {"kind": "init", "t": t, "low": low}))
        # a generator seeded with a start time is an ordinary 32-bit counter afterwards: successors across the 20-bit boundary
        for t in (1, 0xfff, 1_700_000_000 + 0xabc, 0xffffffff):
            for low in (0xffffd, 0xffffe, 0xfffff):
                w.rand_plan.clear()
                w.rand_plan.append(low)
                g = hh.SequenceGenerator(include_now=t)
                cur = g.sequence
                for k in range(5):
                    v = g.next_sequence()
                    cur = succ(cur, MAX32)
                    n += 1
                    if v != cur:
                        rep.add(Violation("seq:time-seeded-successor", f"include_now={t:#x} low={low:#x} draw {k}: got {v:#x} want {cur:#x}",
                                          {"kind": "init-succ", "t": t, "low": low}))
                        break
        w.rand_plan.clear()
        w.rand_plan.append(0xffff0)
        g = hh.SequenceGenerator(include_now=1_700_000_000 + 0x5a5)
        seen = set()
        for _ in range((1 << 20) + 64):
            seen.add(g.next_sequence())
        n += (1 << 20) + 64
        if len(seen) != (1 << 20) + 64 or 0 in seen:
            rep.add(Violation("seq:2^20-successive-of-a-time-seeded-generator-not-distinct", f"{len(seen)} distinct of {(1 << 20) + 64}", {"kind": "long20"}))
        # the node wires its start time into its end-to-end generator
        from diameter.node import Node
        # (incl. start times whose low 12 bits are zero; the random source answers with a value whose own high bits are set)
        for t in (1_700_000_000.0, 1_700_000_000.0 + 0xabc, 1_700_004_095.0, float(0x6553f000), float(0x70000000), float(0x6553ffff)):
            w.now = t
            w.rand_plan.clear()
            w.rand_plan.append(0xabc54321)
            node = Node("n.example.org", "example.org")
            n += 1
            if node.end_to_end_seq.sequence >> 20 != int(t) & 0xfff:
                rep.add(Violation("node:end-to-end-init-bits", f"now={int(t):#x}: {node.end_to_end_seq.sequence:#x}",
                                  {"kind": "node-init", "t": t}))
        # 10^5 successive draws are distinct (across a wrap)
        w.rand_plan.clear()
        w.rand_plan.append(MAX32 - 50_000)
        g = hh.SequenceGenerator()
        seen = set()
        for _ in range(100_000):
            seen.add(g.next_sequence())
        n += 100_000
        if len(seen) != 100_000 or 0 in seen:
            rep.add(Violation("seq:10^5-successive-not-distinct", f"{len(seen)} distinct of 100000", {"kind": "long"}))
    finally:
        w.shutdown()
    return n


def run(tier):
    rep = Report("C16", tier, "model_checking")
    common.pool()       # fork workers before this process creates any simulated thread
    bound = 3 if tier == "thorough" else 2
    execs = 0
    outcomes = 0
    maxpts = 0
    matrix = []
    for kind in ("seq", "sess"):
        mx = MAX32 if kind == "seq" else MAX64
        for nthreads, draws in ((2, 1), (2, 2), (3, 1)) + (((3, 2), (2, 3)) if tier == "thorough" else ()):
            for start in (100, mx - 1, mx):
                matrix.append((kind, nthreads, draws, start))
    node_bound = 2 if tier == "thorough" else 1
    tasks = []
    labels = []
    for cfg in matrix:
        b = bound if not (cfg[1] * cfg[2] >= 6 and bound > 2) else 2
        tasks.append((functools.partial(gen_execute, cfg), gen_check, b))
        labels.append(("gen", cfg, b))
    for cfg in (("callers", 2), ("dwr", 1)):
        tasks.append((functools.partial(node_execute, cfg), node_check, node_bound))
        labels.append(("node", cfg, node_bound))
    for nconn in (2, 3):
        # (three connections under the default schedule only in the quick tier: 43,800 schedules at bound 1)
        mb = 1 if nconn == 2 else (1 if tier == "thorough" else 0)
        tasks.append((functools.partial(multi_execute, nconn), multi_check, mb))
        labels.append(("multi", nconn, mb))
    for (kind, cfg, b), r in zip(labels, (scheddfs.explore_many(tasks) if tier != "thorough" else scheddfs.explore_many_capped(tasks, 2, 900))):
        execs += r["executions"]
        outcomes += len(r["outcomes"])
        maxpts = max(maxpts, r["max_points"])
        for (key, detail), choices in r["violations"]:
            rep.add(Violation(key, f"cfg={cfg} bound={b} schedule={choices}: {detail}",
                              {"kind": kind, "cfg": list(cfg) if isinstance(cfg, (tuple, list)) else cfg, "choices": choices}))
        rep.sample({"cfg": cfg, "bound": b, "bound_completed_without_cap": r.get("bound_completed", b), "capped": r.get("capped", False), "executions": r["executions"], "distinct_outcomes": len(r["outcomes"]),
                    "branching_points": r["max_points"]}, 40)
    for key, detail in retry_sequence():
        rep.add(Violation(key, detail, {"kind": "retry"}))
    mixed = [(n_, k_) for n_ in (2, 3) for k_ in range(n_)]
    for args in mixed:
        for key, detail in mixed_senders(args):
            rep.add(Violation(key, detail, {"kind": "mixed", "args": list(args)}))
    rep.cov["mixed_sender_histories"] = len(mixed)
    n = sweep(rep)
    rep.cov.update({"states": execs, "transitions": execs, "traces_validated_against_impl": execs,
                    "schedules": execs, "distinct_outcomes_total": outcomes, "max_branching_points": maxpts,
                    "preemption_bound_completed": bound, "node_preemption_bound_completed": node_bound,
                    "sequential_evaluations": n, "exhaustive": True,
                    "explanation": "states/transitions = complete executions of the real generators under a controlled "
                                   "scheduler; every schedule with <= bound preemptions at source-line granularity"})
    rep.assumptions += ["a source line without a traced call is atomic", "threads are the only concurrency"]
    return rep.finish()


def replay(case):
    kind = case.get("kind")
    if kind == "gen":
        cfg = tuple(case["cfg"])
        # re-derive n_enabled by replaying choice by choice
        obs, ch = _replay_choices(functools.partial(gen_execute, cfg), case["choices"])
        return [Violation(k, d) for k, d in gen_check(obs)]
    if kind == "mixed":
        return [Violation(k, d) for k, d in mixed_senders(tuple(case["args"]))]
    if kind == "node":
        cfg = tuple(case["cfg"])
        obs, ch = _replay_choices(functools.partial(node_execute, cfg), case["choices"])
        return [Violation(k, d) for k, d in node_check(obs)]
    if kind == "retry":
        return [Violation(k, d) for k, d in retry_sequence()]
    if kind == "multi":
        obs, ch = _replay_choices(functools.partial(multi_execute, case["cfg"]), case["choices"])
        return [Violation(k, d) for k, d in multi_check(obs)]
    rep = Report("C16", "quick", "model_checking")
    sweep(rep)
    return list(rep.violations.values())


def _replay_choices(execute, choices):
    """Rebuild the (choice, n_enabled) prefix from bare choices by iterative replay."""
    prefix = []
    while True:
        obs, ch = execute(prefix)
        if len(prefix) >= len(choices) or len(ch.choices) <= len(prefix):
            return obs, ch
        i = len(prefix)
        prefix = ch.choices[:i] + [(choices[i], ch.choices[i][1])]
