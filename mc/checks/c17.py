"""C17 - T-flagged duplicates of answered requests are rejected, no others."""
from __future__ import annotations

import copy

from .. import common, env, monitors
from ..common import Report, Violation

BASE = {
    "node": {"ips": ["10.0.0.1"], "tcp_port": 3868, "idle_timeout": 600, "wakeup": 5, "retransmit_queue_size": 2},
    "peers": [{"name": "peer1.example.org"}],
    "apps": [{"id": env.APP_ACCT, "acct": True, "peers": [0]}],
}
MONS = [monitors.RetransMonitor, monitors.AnswerMonitor]
PRE = [("accept",), ("m", 0, "cer_p0")]


def models(tier):
    out = []
    reqs = ["rt:a:0:1", "rt:a:1:1", "rt:a:1:2", "rt:a:0:2", "rt:a:1:3", "rt:b:1:1", "rt:b:0:1"]
    for W in (1, 2, 3) + ((4,) if tier == "thorough" else ()):
        auto = copy.deepcopy(BASE)
        auto["node"]["retransmit_queue_size"] = W
        auto["apps"][0]["behaviour"] = "answer"
        out.append(monitors.ScenarioModel(f"auto-answer-window-{W}", auto, [("m", 0, n) for n in reqs], MONS, max_socks=1, prelude=PRE))
    for W in (1, 2):
        hold = copy.deepcopy(BASE)
        hold["node"]["retransmit_queue_size"] = W
        out.append(monitors.ScenarioModel(f"held-answers-window-{W}", hold,
                                          [("m", 0, n) for n in reqs[:6]] + [("ans", 0), ("ans", 1), ("ans", 2), ("tick", 45)], MONS, max_socks=1, prelude=PRE))
    # the peer loses its connection and comes back: what it was answered before is still answered (failover is when T-flagged repeats happen)
    rc_cfg = copy.deepcopy(BASE)
    rc_cfg["node"]["retransmit_queue_size"] = 3
    rc_cfg["apps"][0]["behaviour"] = "answer"
    alpha = []
    for c in (0, 1):
        alpha += [("m", c, n) for n in ("rt:p:0:1", "rt:p:1:1", "rt:a:0:2", "rt:a:1:2")] + [("eof", c)]
    alpha += [("accept",), ("m", 1, "cer_p0"), ("tick", 1)]
    out.append(monitors.ScenarioModel("peer-reconnects", rc_cfg, alpha, MONS, max_socks=2, prelude=PRE))
    # the end-to-end identifier 0 is an identifier like any other
    z = copy.deepcopy(BASE)
    z["node"]["retransmit_queue_size"] = 3
    z["apps"][0]["behaviour"] = "answer"
    out.append(monitors.ScenarioModel("end-to-end-identifier-zero", z, [("m", 0, n) for n in ("rt:a:0:1", "rz:a:1", "rz:a:0", "rt:a:1:1", "rz:b:1", "rt:b:0:2")],
                                      MONS, max_socks=1, prelude=PRE))
    # an origin host whose name contains capital letters (next to a lower-case one)
    cap = copy.deepcopy(BASE)
    cap["node"]["retransmit_queue_size"] = 2
    cap["apps"][0]["behaviour"] = "answer"
    out.append(monitors.ScenarioModel("origin-host-with-capital-letters", cap, [("m", 0, n) for n in ("rt:c:0:1", "rt:c:1:1", "rt:c:1:2", "rt:a:0:1", "rt:a:1:1", "rt:c:0:2")],
                                      MONS, max_socks=1, prelude=PRE))
    # a request is still with the application when its connection receives a DPR; the answer is refused; the peer comes back and repeats
    # the request with the T flag: it was never answered, so it is served
    lost = copy.deepcopy(BASE)
    lost["node"]["retransmit_queue_size"] = 3
    out.append(monitors.ScenarioModel("answer-refused-then-repeat-after-reconnect", lost,
                                      [("ans", 0), ("eof", 0), ("accept",), ("m", 1, "cer_p0"), ("m", 1, "rt:p:1:1"), ("m", 1, "rt:p:0:2"), ("ans", 1)],
                                      MONS, max_socks=2, prelude=PRE + [("m", 0, "rt:p:0:1"), ("m", 0, "dpr")]))
    # two relays forward requests of two origin hosts that happen to carry the same identifier pair (hop-by-hop ids are unique per
    # connection only, end-to-end ids per origin host only) and are pending at the application at the same time
    two = copy.deepcopy(BASE)
    two["peers"].append({"name": "peer2.example.org"})
    two["apps"][0]["peers"] = [0, 1]
    two["node"]["retransmit_queue_size"] = 3
    alpha = [("m", 0, "rx:a:0:1"), ("m", 1, "rx:b:0:1"), ("ans", 0), ("ans", 1), ("m", 0, "rx:a:1:1"), ("m", 1, "rx:b:1:1"), ("m", 1, "rx:b:1:2")]
    out.append(monitors.ScenarioModel("two-connections-same-identifier-pair-held-answers", two, alpha, MONS, max_socks=2,
                                      prelude=PRE + [("accept",), ("m", 1, "cer_p1")]))
    # a second deterministic scheduling policy (the I/O thread runs only when nothing else can)
    if True:
        out = monitors.with_io_last(out)
    return out


# ------------------------------------------------------------------ E4: an application thread answering vs the node's I/O loop
SCHED_VARIANTS = ("answer-vs-next-request", "answer-vs-timer-wakeup", "two-answers")


def sched_execute(variant, prefix):
    """A held request is answered from an application thread while the node's I/O thread has work in the same instant
    (another request arriving, or its periodic wake-up); afterwards the peer repeats the answered request with the T flag.
    Every interleaving (bounded) at line granularity in send_answer / route_answer / send_message / _record_answer and the
    I/O loop."""
    import functools
    from .. import scenario, scheddfs, simkernel as sk
    import diameter.node.node as nn
    import diameter.node.application as aa
    sk.install()
    pts = {}
    for cls, names in ((nn.Node, ("route_answer", "send_message", "_record_answer", "_handle_connections", "_receive_app_request", "_receive_message")),
                       (aa.Application, ("send_answer",))):
        for name in names:
            if hasattr(cls, name):
                pts[sk.code_of(cls, name)] = None
    sk.set_line_points(pts)
    ch = scheddfs.Chooser(prefix)
    cfg = copy.deepcopy(BASE)
    if variant == "two-answers":
        # two answers submitted concurrently have no defined order, so the window must not be so small that the order in
        # which the node happened to note them decides which one is evicted by the rejection of the first repeat
        cfg["node"]["retransmit_queue_size"] = 3
    sc = scenario.Scenario(cfg, chooser=ch, max_socks=1)
    try:
        nw = sc.start()
        mons = [m(sc) for m in MONS]
        vs = []

        def step(ev):
            ok = sc.apply(ev)
            for m in mons:
                vs.extend(m.step())
            return ok
        for ev in PRE + [("m", 0, "rt:a:0:1")] + ([("m", 0, "rt:a:0:2")] if variant == "two-answers" else []):
            step(ev)
        if len(nw.requests) < 1:
            raise sk.HarnessError("set-up: the request did not reach the application")
        s = sc.socks[0]

        def answer(j):
            app, msg = nw.requests[j]
            app.send_answer(app.generate_answer(msg, result_code=2001))
        if variant == "answer-vs-next-request":
            nw.deliver(s.fs, sc.message(s, "rt:a:0:2"), run=False)
        elif variant == "answer-vs-timer-wakeup":
            nw.world.jump(5)
        nw.world.points_on = True
        ch.window = True
        sk.spawn(functools.partial(answer, 0), "answerer0")
        if variant == "two-answers":
            sk.spawn(functools.partial(answer, 1), "answerer1")
        nw.run()
        ch.window = False
        nw.world.points_on = False
        sc.sync()
        for m in mons:
            vs.extend(m.step())
        step(("m", 0, "rt:a:1:1"))          # the T-flagged repeat of the answered request
        if variant == "two-answers":
            step(("m", 0, "rt:a:1:2"))
        step(("m", 0, "rt:a:1:3"))          # a T-flagged request never seen before
        obs = (variant, tuple(sorted(set(k for k, d in vs))), tuple((f.h.e2e, f.result_code) for f in s.out if not f.h.is_request and f.h.code != 257),
               len(nw.requests), tuple(nw.thread_failures()))
        return (obs, tuple(vs)), ch
    finally:
        sc.close()


def sched_check(obs_vs):
    obs, vs = obs_vs
    out = [(k + ":under-some-schedule", d) for k, d in vs]
    variant, keys, answers, nreq, fails = obs
    if fails:
        out.append(("retransmit:thread-died:under-some-schedule", f"{fails}"))
    return out


def run(tier):
    rep = Report("C17", tier, "model_checking")
    common.pool()
    import functools
    from .. import scheddfs
    sn = successive_nodes()
    rep.cov["successive_node_histories"] = 2
    if sn:
        # executions are not independent of each other: nothing explored in one long-lived process would mean anything
        for key, detail in sn:
            rep.add(Violation(key, detail, {"kind": "successive-nodes"}))
        rep.notes.append("exploration skipped: a Node's verdicts depend on Node objects created earlier in the same process")
        rep.cov.update({"states": 2, "transitions": 4, "traces_validated_against_impl": 4, "max_depth": 2})
        return rep.finish()
    bound = 2 if tier == "thorough" else 1
    sched = 0
    tasks = [(functools.partial(sched_execute, v), sched_check, bound) for v in SCHED_VARIANTS]
    for v, r in zip(SCHED_VARIANTS, (scheddfs.explore_many(tasks) if tier != "thorough" else scheddfs.explore_many_capped(tasks, 1, 600))):
        sched += r["executions"]
        for (key, detail), choices in r["violations"]:
            rep.add(Violation(key, f"[{v}, bound {bound}] choices {choices}: {detail}", {"sched": v, "choices": choices}))
        rep.sample({"schedule_exploration": f"{v}: application thread(s) in send_answer vs the I/O loop, line granularity", "preemption_bound": bound, "bound_completed_without_cap": r.get("bound_completed", bound), "capped": r.get("capped", False),
                    "executions": r["executions"], "distinct_outcomes": len(r["outcomes"]), "branching_points": r["max_points"]})
    rep.cov["schedules"] = sched
    depth = 7 if tier == "thorough" else 5
    tot = monitors.run_models(rep, models(tier), depth, dedup_depth_plain=depth - 2, time_cap=1200 if tier == "thorough" else 100)
    rep.cov.update({"states": tot["states"], "transitions": tot["transitions"], "traces_validated_against_impl": tot["transitions"] + tot["plain_transitions"],
                    "max_depth": tot["max_depth"], "states_without_dedup": tot["plain_states"],
                    "explanation": "BFS over request sequences from 2 origin hosts, T in {0,1}, end-to-end ids from a pool of 3, answered at once "
                                   "(windows 1..3/4) or held and answered in any order, also 45 s later (windows 1..2); reference = per-origin list of transmitted "
                                   "answers, judged only where counting with and without the node's own rejections agrees"})
    rep.assumptions += ["hop-by-hop ids unique per request; all requests arrive on one ready connection (relay scenario)"]
    return rep.finish()


def successive_nodes():
    """Two Node objects in one process, one after the other (a restarted node, a failover pair in one program, a test suite): what the
    first one answered is nothing the second one has answered.  First node: a request of origin a with end-to-end id 1 is answered;
    second node (fresh world): the T-flagged request with the same identifiers arrives - it was never answered by *this* node and
    must be delivered.  Also guards the exploration itself: every explored history runs in a fresh node of a long-lived worker."""
    m = [x for x in models("quick") if x.name == "auto-answer-window-2"][0]
    vs = []
    for first, second in ((("m", 0, "rt:a:0:1"),), (("m", 0, "rt:a:1:1"),)), ((("m", 0, "rt:a:0:2"), ("m", 0, "rt:b:0:1")), (("m", 0, "rt:b:1:1"), ("m", 0, "rt:a:1:2"))):
        r1 = m.build(first)
        r2 = m.build(second)
        for r in (r1, r2):
            if r is None:
                raise RuntimeError("successive_nodes: history not enabled")
        vs += [(k + ":in-a-second-node-of-the-same-process", f"first node: {list(first)} -> {r1[1]}; second node (fresh): {list(second)}: {d}") for k, d in r2[1]]
    return vs


def replay(case):
    if case.get("kind") == "successive-nodes":
        return [Violation(k, d) for k, d in successive_nodes()]
    if "sched" in case:
        import functools
        from .. import scheddfs
        obs_vs, ch = scheddfs.replay_choices(functools.partial(sched_execute, case["sched"]), case["choices"])
        return [Violation(k, d) for k, d in sched_check(obs_vs)]
    hist = tuple(tuple(e) for e in case["history"])
    for m in models("thorough"):
        if m.name == case["model"]:
            out = []
            for k in range(1, len(hist) + 1):
                r = m.build(hist[:k])
                if r is not None:
                    out += [Violation(key, d) for key, d in r[1]]
            return out
    return []
