"""C17 - T-flagged duplicates of answered requests are rejected, no others."""
from __future__ import annotations

import copy

from .. import common, env, monitors
from ..common import Report, Violation

BASE = {
    "node": {"ips": ["10.0.0.1"], "tcp_port": 3868, "idle_timeout": 600, "wakeup": 5, "retransmit_queue_size": 2},
    "peers": [{"name": "peer1.example.org"}],
    "apps": [{"id": env.APP_ACCT, "acct": True, "peers": [0]}],
}
MONS = [monitors.RetransMonitor, monitors.AnswerMonitor]
PRE = [("accept",), ("m", 0, "cer_p0")]


def models(tier):
    out = []
    reqs = ["rt:a:0:1", "rt:a:1:1", "rt:a:1:2", "rt:a:0:2", "rt:a:1:3", "rt:b:1:1", "rt:b:0:1"]
    for W in (1, 2, 3) + ((4,) if tier == "thorough" else ()):
        auto = copy.deepcopy(BASE)
        auto["node"]["retransmit_queue_size"] = W
        auto["apps"][0]["behaviour"] = "answer"
        out.append(monitors.ScenarioModel(f"auto-answer-window-{W}", auto, [("m", 0, n) for n in reqs], MONS, max_socks=1, prelude=PRE))
    for W in (1, 2):
        hold = copy.deepcopy(BASE)
        hold["node"]["retransmit_queue_size"] = W
        out.append(monitors.ScenarioModel(f"held-answers-window-{W}", hold,
                                          [("m", 0, n) for n in reqs[:6]] + [("ans", 0), ("ans", 1), ("ans", 2)], MONS, max_socks=1, prelude=PRE))
    return out


def run(tier):
    rep = Report("C17", tier, "model_checking")
    common.pool()
    depth = 7 if tier == "thorough" else 5
    tot = monitors.run_models(rep, models(tier), depth, dedup_depth_plain=depth - 2, time_cap=1200 if tier == "thorough" else 100)
    rep.cov.update({"states": tot["states"], "transitions": tot["transitions"], "traces_validated_against_impl": tot["transitions"] + tot["plain_transitions"],
                    "max_depth": tot["max_depth"], "states_without_dedup": tot["plain_states"],
                    "explanation": "BFS over request sequences from 2 origin hosts, T in {0,1}, end-to-end ids from a pool of 3, answered at once "
                                   "(windows 1..3/4) or held and answered in any order (windows 1..2); reference = per-origin list of transmitted "
                                   "answers, judged only where counting with and without the node's own rejections agrees"})
    rep.assumptions += ["hop-by-hop ids unique per request; all requests arrive on one ready connection (relay scenario)"]
    return rep.finish()


def replay(case):
    hist = tuple(tuple(e) for e in case["history"])
    for m in models("thorough"):
        if m.name == case["model"]:
            out = []
            for k in range(1, len(hist) + 1):
                r = m.build(hist[:k])
                if r is not None:
                    out += [Violation(key, d) for key, d in r[1]]
            return out
    return []
