"""C18 - graceful shutdown: DPR to ready peers, drain, refuse newcomers, stop all threads.

E5: exhaustive product of connection-state vectors x peer reaction to the DPR x newcomer / reconnect
timing x force x wait timeout, each executed on the real node with stop() in its own thread;
thorough adds preemption-bounded schedule exploration of stop() against the I/O thread.
"""
from __future__ import annotations

import functools
import itertools

from .. import common, env, monitors, refcodec as rc, scenario, scheddfs, simkernel as sk
from ..common import Report, Violation

STATES = ("connecting", "await_cer", "await_cea", "ready", "waiting_dwa", "disconnecting")
REACTIONS = ("dpa_now", "dpa_later", "never", "close")


def cfg_for(states, with_lost_persistent, extra=None):
    peers = []
    for i, st in enumerate(states):
        pc = {"name": f"peer{i + 1}.example.org"}
        if extra == "late_cer" and st == "await_cer":
            pc["idle_timeout"] = 1          # once identified (inside the shutdown window) it idles out quickly
        if st in ("connecting", "await_cea"):
            pc.update({"ips": [f"10.1.0.{i + 1}"], "persistent": True, "reconnect_wait": 600})
        if st == "waiting_dwa":
            pc["idle_timeout"] = 2
        peers.append(pc)
    peers.append({"name": "newcomer.example.org"})      # index len(states): a configured peer that connects during the shutdown
    if with_lost_persistent:
        peers.append({"name": "lost.example.org", "ips": ["10.1.0.99"], "persistent": True, "reconnect_wait": 4, "always_reconnect": True})
    return {"node": {"ips": ["10.0.0.1"] if extra != "multi_listen" else ["10.0.0.1", "10.0.0.2", "10.0.0.3", "10.0.0.4"], "tcp_port": 3868, "cer_timeout": 600, "cea_timeout": 600, "idle_timeout": 600, "dwa_timeout": 600, "wakeup": 1,
                     # "sctp": the node listens on SCTP (one socket bound to its addresses with bindx) and its peers are SCTP peers
                     **({"transport": "sctp"} if extra == "sctp" else {})},
            "peers": peers,
            # (the schedule exploration of a reconnect due at stop() uses a plain application: worker threads that all wake up at once
            # multiply the orders to explore without touching the dial path)
            "apps": [dict({"id": env.APP_ACCT, "acct": True, "peers": list(range(len(states)))},
                          **({} if extra == "due_now" else {"kind": "threading", "max_threads": 2}))] +
                    # "stop_from_handler": a second threading application registered after the first
                    ([{"id": env.APP_AUTH, "auth": True, "peers": list(range(len(states))), "kind": "threading", "max_threads": 2}] if extra == "stop_from_handler" else [])}


def setup(sc, states, with_lost, extra=None):
    """Bring each connection into its state.  Returns {connection index: env socket index}."""
    nw = sc.nw
    idx = {}
    # dialled sockets exist already (start-time dial of persistent peers, in peer order)
    dial_plan = iter([s for s in sc.socks if s.kind == "dialled"])
    for i, st in enumerate(states):
        if st in ("connecting", "await_cea"):
            s = next(dial_plan)
            idx[i] = s.idx
    for i, st in enumerate(states):
        if st in ("await_cer", "ready", "waiting_dwa", "disconnecting"):
            sc.max_socks = len(sc.socks) + 1
            sc.apply(("accept",))
            c = len(sc.socks) - 1
            idx[i] = c
            if st != "await_cer":
                # "same_peer": every accepted connection identifies as the first configured peer (one peer, several connections)
                if not sc.apply(("m", c, "cer_p0" if extra == "same_peer" else f"cer_p{i}")):
                    raise sk.HarnessError("set-up: CER refused")
                if extra == "same_peer" and (sc.socks[c].fs.closed or not any(not f.h.is_request and f.h.code == 257 and f.result_code == 2001 for f in sc.socks[c].out)):
                    return None
    if "waiting_dwa" in states:
        sc.apply(("tick", 3))
    for i, st in enumerate(states):
        if st == "disconnecting":
            sc.apply(("m", idx[i], "dpr"))
    return idx


def run_case(case, chooser=None, window=None):
    states, reaction, force, wt, newcomer_at, with_lost = case[:6]
    extra = case[6] if len(case) > 6 else None
    cfg = cfg_for(states, with_lost, extra)
    plan = []
    for st in states:
        if st == "connecting":
            plan.append("inprogress")
        elif st == "await_cea":
            plan.append("ok")
    if with_lost:
        plan.append("refused")      # the lost persistent peer: refused at start, its redial falls into the shutdown window
    sc = scenario.Scenario(cfg, chooser=chooser, max_socks=8, start_plan=plan)
    vs = []
    try:
        nw = sc.start()
        if with_lost:
            nw.world.on_connect = None
        idx = setup(sc, states, with_lost, extra)
        if idx is None:
            return []           # the node does not admit a second connection of a connected peer: nothing to examine
        if with_lost and extra == "due_now":
            sc.apply(("tick", 3))
            nw.world.jump(1)            # the reconnect is due in the very instant stop() is called
        elif with_lost:
            sc.apply(("tick", 2))       # lost at t=0 (refused), reconnect_wait 4: due 1-2 s into the shutdown
        ready_at_stop = [i for i, st in enumerate(states) if st in ("ready", "waiting_dwa")]
        socks_before = [s.sid for s in nw.world.socks]
        n_frames = {i: len(sc.socks[c].out) for i, c in idx.items()}
        t0 = nw.world.now
        if extra == "bad_backlog":
            # in the instant of stop() every ready connection still has a message in its queue that cannot be encoded (an answer
            # with a text where a number belongs): it is dropped alone, the DPR behind it goes out
            from diameter.message.commands import AccountingAnswer
            for i in ready_at_stop:
                conn = nw.conn_of(sc.socks[idx[i]].fs)
                if conn is not None:
                    bad = AccountingAnswer()
                    bad.header.hop_by_hop_identifier = 0x6600 + i
                    bad.header.end_to_end_identifier = 0x6700 + i
                    bad.session_id = "bad;1"
                    bad.origin_host = b"node.example.org"
                    bad.origin_realm = b"example.org"
                    bad.result_code = "2001"
                    bad.accounting_record_type = 1
                    bad.accounting_record_number = 1
                    conn.add_out_msg(bad)
            nw.world.low_kind = "work_write_queue"      # the writers get the CPU last: the DPR is queued behind the bad message before they look
        if window is not None and extra != "dpa_window":
            nw.world.points_on = True
            chooser.window = True
        if extra == "self_closed":
            # in the instant of stop() a connection ends itself (a frame with an impossible length): its wake-up request may or may not
            # have been looked at when the I/O thread notices the stop (the I/O thread gets the CPU last)
            for i in ready_at_stop:
                s_ = sc.socks[idx[i]]
                nw.deliver(s_.fs, sc.message(s_, "badlen"), run=False)
            nw.world.low_kind = "_handle_connections"
        if extra == "stop_from_handler":
            # stop() is called from inside a request handler of the first application (a thread of that application)
            def stopping_handler(message):
                nw.world.obs("env_stop", force, wt)
                try:
                    nw.node.stop(wait_timeout=wt, force=force)
                    nw.world.obs("stop_returned")
                except Exception as e:
                    nw.world.obs("stop_raised", repr(e))
                return "answer"
            nw.apps[0].behaviour = stopping_handler
            sc.stop_thread = True
            sc.apply(("m", idx[ready_at_stop[0]], "req"))
        else:
            sc.apply(("stop", force, wt))
        if window is not None:
            chooser.window = False
            nw.world.points_on = False
        if extra in ("bad_backlog", "self_closed"):
            nw.world.low_kind = None
        dpa_time = {}
        newcomers = []
        queued = {}
        if extra == "late_cer":
            for i, st in enumerate(states):
                if st == "await_cer":
                    sc.apply(("m", idx[i], f"cer_p{i}"))       # its capabilities exchange completes inside the shutdown window
                    n_frames[i] = len(sc.socks[idx[i]].out)
        if extra == "backlog" and not force:
            # output is still pending behind the DPR when the DPA arrives: the peer stops reading after the DPR,
            # the application hands the node one more message for that connection
            from diameter.message.commands import AccountingRequest
            for i in ready_at_stop:
                s = sc.socks[idx[i]]
                conn = nw.conn_of(s.fs)
                if conn is None:
                    continue
                s.fs.send_blocked = True
                m = AccountingRequest()
                m.header.hop_by_hop_identifier = 0x7700 + i
                m.header.end_to_end_identifier = 0x7800 + i
                m.session_id = "late;1"
                m.origin_host = b"node.example.org"
                m.origin_realm = b"example.org"
                m.destination_realm = b"example.org"
                m.accounting_record_type = 1
                m.accounting_record_number = 424242
                nw.node.send_message(conn, m)
                nw.run()
                queued[i] = m.as_bytes()
        if extra in ("together", "together_iolast") and not force and len(ready_at_stop) >= 2:
            # both peers' DPAs arrive in the same instant (one select round sees both; under the second policy both wake-up
            # requests are queued before the I/O thread looks at the pipe)
            if extra == "together_iolast":
                nw.world.low_kind = "_handle_connections"
            a, b = ready_at_stop[0], ready_at_stop[1]
            if sc.apply(("x", idx[a], "dpa", idx[b], "dpa")):
                dpa_time[a] = dpa_time[b] = nw.world.now
        for sec in range(0, wt + 9):
            # peers react to the DPR they have received
            for i in ready_at_stop:
                s = sc.socks[idx[i]]
                got_dpr = any(f.h.is_request and f.h.code == 282 for f in s.out[n_frames[i]:])
                if not got_dpr or i in dpa_time or s.fs.closed or s.env_closed:
                    continue
                if extra and extra.startswith("flood"):
                    nw.world.low_kind = "_handle_connections"       # the I/O thread is the last to get the CPU from here on
                if extra and extra.startswith("flood") and i == ready_at_stop[0] and len(ready_at_stop) > 1:
                    # this peer sends a burst of 200 watchdog requests and then its DPA in one segment; the segment is handled
                    # together with the next peer's DPA, so that peer's wake-up request queues up behind 200 others
                    data = b"".join(sc.message(s, "dwr") for _ in range(int(extra[5:] or 200))) + sc.message(s, "dpa")
                    nw.deliver(s.fs, data, run=False)
                    dpa_time[i] = nw.world.now
                    continue
                if reaction == "dpa_now" or (reaction == "dpa_later" and sec >= 1):
                    if extra == "dwa_first" and states[i] == "waiting_dwa":
                        sc.apply(("m", idx[i], "dwa"))      # the peer first answers the watchdog request that was outstanding, then the DPR
                    if extra == "dpa_window" and chooser is not None:
                        # schedule exploration of the DPA's arrival: the reader thread handling it against the I/O thread
                        nw.world.points_on = True
                        chooser.window = True
                    ok_ = sc.apply(("m", idx[i], "dpa"))
                    if extra == "dpa_window" and chooser is not None:
                        chooser.window = False
                        nw.world.points_on = False
                    if ok_:
                        dpa_time[i] = nw.world.now
                        if i in queued:
                            s.fs.send_blocked = False       # the peer reads again
                            nw.run()
                elif reaction == "close":
                    sc.apply(("eof", idx[i]))
                    dpa_time[i] = None
            if newcomer_at is not None and sec == newcomer_at:
                lst = nw.world.listeners[0] if nw.world.listeners else None
                if lst is not None and not lst.closed:
                    sc.max_socks = len(sc.socks) + 1
                    if sc.apply(("accept",)):
                        c = len(sc.socks) - 1
                        newcomers.append(c)
                        sc.apply(("m", c, f"cer_p{len(states)}"))
            sc.apply(("tick", 1))
        sc.sync()
        log = nw.world.log
        stop_returned = [r for r in log if r[1] == "stop_returned"]
        stop_raised = [r for r in log if r[1] == "stop_raised"]
        desc = f"{case}"
        # --- DPR to exactly the ready connections, cause REBOOTING; none when forced
        for i, c in idx.items():
            if extra == "self_closed":
                continue        # these connections ended themselves in the instant of stop(): only the end state is judged
            s = sc.socks[c]
            new = s.out[n_frames[i]:]
            dprs = [f for f in new if f.h.is_request and f.h.code == 282]
            dwrs = [f for f in new if f.h.is_request and f.h.code == 280]
            if dwrs:
                vs.append(("shutdown:DWR-sent-while-stopping", f"{desc}: connection {i} ({states[i]})"))
            want = 1 if (i in ready_at_stop and not force) else 0
            if len(dprs) != want:
                vs.append((f"shutdown:{len(dprs)}-DPR-instead-of-{want}:{states[i]}:{'forced' if force else 'graceful'}", f"{desc}: connection {i}"))
            for f in dprs:
                if f.u32(273) != 0 or f.get(264) != nw.node.origin_host.encode():
                    vs.append(("shutdown:DPR-without-cause-REBOOTING-or-origin", f"{desc}: {f!r} cause {f.u32(273)}"))
            # closed after its DPA (and flush), or at the timeout
            closes = [r for r in log if r[1] == "close" and r[2] == s.fs.sid]
            if i in ready_at_stop and not force and dpa_time.get(i) is not None:
                if not closes:
                    vs.append(("shutdown:connection-not-closed-after-its-DPA", f"{desc}: connection {i}"))
                elif closes[0][0] < dpa_time[i]:
                    vs.append(("shutdown:connection-closed-before-its-DPA-arrived", f"{desc}: connection {i} closed at {closes[0][0] - t0}, DPA at {dpa_time[i] - t0}"))
                elif closes[0][0] > dpa_time[i] + 2 and (closes[0][0] < t0 + wt or (extra or "").startswith("flood") or extra in ("together", "together_iolast", "dwa_first", "dpa_window")):
                    vs.append(("shutdown:connection-not-closed-promptly-after-its-DPA", f"{desc}: connection {i} DPA at {dpa_time[i] - t0}, closed at {closes[0][0] - t0}"))
            if i in ready_at_stop and not force and reaction == "never" and closes and closes[0][0] < t0 + wt:
                vs.append(("shutdown:connection-closed-before-DPA-or-timeout", f"{desc}: connection {i} closed at {closes[0][0] - t0}, timeout {wt}"))
        # --- output pending behind the DPR is flushed before the connection is closed
        for i, raw in queued.items():
            s = sc.socks[idx[i]]
            if dpa_time.get(i) is not None and raw not in bytes(s.fs.sent):
                vs.append(("shutdown:connection-closed-after-DPA-before-its-pending-output-was-flushed", f"{desc}: connection {i}"))
        # --- newcomers are closed unserved
        for c in newcomers:
            s = sc.socks[c]
            if s.out:
                vs.append(("shutdown:newcomer-was-served", f"{desc}: frames {s.out}"))
            if not s.fs.closed:
                vs.append(("shutdown:newcomer-not-closed", f"{desc}"))
        # --- no dial while stopping
        for fs in nw.world.socks:
            if fs.sid not in socks_before and fs.connect_called and fs.created_while:
                vs.append(("shutdown:peer-dialled-while-stopping", f"{desc}: socket {fs.sid}"))
        # --- after stop() returned: everything closed, nothing running
        if stop_raised:
            vs.append(("shutdown:stop-raised", f"{desc}: {stop_raised[0][2]}"))
        elif not stop_returned:
            vs.append(("shutdown:stop-did-not-return", f"{desc}"))
        else:
            late = stop_returned[0][0] - t0
            if late > wt + 6 + 4:
                vs.append(("shutdown:stop-returned-much-later-than-the-wait-timeout", f"{desc}: after {late} s"))
            still_open = [(fs.sid, fs.kind) for fs in nw.world.socks if not fs.closed]
            if still_open:
                kinds = sorted({k for _, k in still_open})
                vs.append((f"shutdown:sockets-left-open-after-stop:{'+'.join(kinds)}", f"{desc}: {still_open}"))
            live = [(t.kind or t.name) for t in nw.world.live_threads()]
            if live:
                vs.append((f"shutdown:threads-still-running-after-stop:{'+'.join(sorted(set(map(str, live))))}", f"{desc}: {live}"))
        for name, tkind, exc in nw.thread_failures():
            vs.append((f"shutdown:thread-terminated-abnormally:{tkind}:{exc.split('(')[0]}", f"{desc}: {name}: {exc}"))
        return vs
    except sk.Livelock as e:
        return [("livelock:node-threads-never-reach-quiescence", f"{case}: {e}")]
    finally:
        sc.close()


def work(cases):
    out = {}
    n = 0
    for case in cases:
        n += 1
        for k, d in run_case(case):
            out.setdefault(k, (d, list(map(str, case))))
    return n, [(k, d, c) for k, (d, c) in out.items()]


def all_cases(tier):
    cases = []
    nconn = (0, 1, 2) if tier != "thorough" else (0, 1, 2, 3)
    for n in nconn:
        vecs = list(itertools.product(STATES, repeat=n))
        if n == 3:
            vecs = [v for v in vecs if "ready" in v or "waiting_dwa" in v]
        for states in vecs:
            has_ready = any(s in ("ready", "waiting_dwa") for s in states)
            for reaction in (REACTIONS if has_ready else ("never",)):
                for force in (False, True):
                    if force and reaction != "never":
                        continue
                    for wt in (2, 5):
                        if wt == 5 and n >= 2 and tier != "thorough" and "await_cer" not in states:
                            continue
                        for newcomer_at in (None, 0, 1):
                            for with_lost in (False, True):
                                if with_lost and newcomer_at is not None:
                                    continue
                                cases.append((states, reaction, force, wt, newcomer_at, with_lost))
                        if has_ready and not force and reaction in ("dpa_now", "dpa_later"):
                            cases.append((states, reaction, force, wt, None, False, "backlog"))
                        if n >= 2 and wt == 2 and all(st in ("ready", "waiting_dwa", "disconnecting", "await_cer") for st in states) and \
                                sum(st in ("ready", "waiting_dwa") for st in states) >= 2:
                            cases.append((states, reaction, force, wt, None, False, "same_peer"))
                        if "await_cer" in states and wt == 5:
                            cases.append((states, reaction, force, wt, None, False, "late_cer"))
    # a node listening on four addresses
    for states in ((), ("ready",), ("await_cer", "ready")):
        for force in (False, True):
            cases.append((states, "dpa_now" if states and not force else "never", force, 2, None if not states else 0, False, "multi_listen"))
    # the same shutdown over SCTP (listener, accepted and dialled sockets of the node's SCTP branches)
    for states in ((), ("ready",), ("await_cer", "ready"), ("connecting",), ("await_cea", "ready"), ("ready", "waiting_dwa"), ("disconnecting", "ready")):
        for force in (False, True):
            has_ready = any(s_ in ("ready", "waiting_dwa") for s_ in states)
            for reaction in (("dpa_now", "never", "close") if has_ready and not force else ("never",)):
                for newcomer_at in (None, 0):
                    cases.append((states, reaction, force, 2, newcomer_at, False, "sctp"))
        cases.append((states, "never", False, 2, None, True, "sctp"))
    for ex in ("together", "together_iolast"):
        cases.append((("ready", "ready"), "dpa_now", False, 5, None, False, ex))
        cases.append((("waiting_dwa", "ready"), "dpa_now", False, 5, None, False, ex))
    for sts in (("ready",), ("ready", "ready"), ("waiting_dwa", "ready")):
        for reac in ("dpa_now", "never"):
            cases.append((sts, reac, False, 3, None, False, "bad_backlog"))
    for sts in (("ready",), ("ready", "ready")):
        for reac in ("dpa_now", "never"):
            for frc in (False, True):
                cases.append((sts, reac, frc, 3, None, False, "stop_from_handler"))
    for sts in (("waiting_dwa",), ("waiting_dwa", "ready"), ("ready", "waiting_dwa")):
        for reac in ("dpa_now", "dpa_later"):
            cases.append((sts, reac, False, 5, None, False, "dwa_first"))
    for sts in (("ready",), ("ready", "ready"), ("waiting_dwa",)):
        for frc in (True, False):
            cases.append((sts, "never", frc, 2, None, False, "self_closed"))
    for nfl in (12, 50, 700):       # bursts of other sizes (a pipe drained in reads of 64 / 256 / 1024 / 4096 bytes loses a request at one of them)
        cases.append((("ready", "ready"), "dpa_now", False, 5, None, False, f"flood{nfl}"))
    cases.append((("ready", "ready"), "dpa_now", False, 5, None, False, "flood"))
    cases.append((("waiting_dwa", "ready"), "dpa_now", False, 5, None, False, "flood"))
    return cases


# ------------------------------------------------------------------ E4: stop() against the I/O thread (thorough, and one case in quick)
def sched_execute(case, prefix):
    import diameter.node.node as nn
    sk.install()
    sk.set_call_points([sk.code_of(nn.Node, n) for n in ("_check_timers", "_reconnect_peers", "close_connection_socket", "remove_peer_connection",
                                                           "_add_peer_connection", "send_dpr", "receive_dpa", "send_message")])
    lines = {sk.code_of(nn.Node, "stop"): None}
    if len(case) > 6 and case[6] == "due_now":
        lines.update({sk.code_of(nn.Node, "_reconnect_peers"): None, sk.code_of(nn.Node, "_connect_to_peer"): None})
    if len(case) > 6 and case[6] == "dpa_window":
        import diameter.node.peer as pp
        lines = {sk.code_of(nn.Node, "receive_dpa"): None, sk.code_of(pp.PeerConnection, "close"): None}
    sk.set_line_points(lines)
    ch = scheddfs.Chooser(prefix)
    vs = run_case(case, chooser=ch, window=True)
    return (tuple(sorted(set(k for k, d in vs))), tuple(vs)), ch


def sched_check(obs_vs):
    obs, vs = obs_vs
    return [(k + ":under-some-schedule", d) for k, d in vs]


def run(tier):
    rep = Report("C18", tier, "fault_enumeration")
    common.pool()
    cases = all_cases(tier)
    chunks = [cases[i:i + 12] for i in range(0, len(cases), 12)]
    total = 0
    for n, vs in common.pmap(work, chunks, chunksize=1):
        total += n
        for k, d, c in vs:
            rep.add(Violation(k, d, {"case": c}))
    sched_cases = [(("ready", "waiting_dwa"), "dpa_now", False, 2, 0, False), (("ready",), "dpa_later", False, 2, None, True),
                   (("await_cea", "ready"), "close", False, 2, 1, False), (("ready",), "never", True, 2, 0, False)]
    bound = 1
    if tier != "thorough":
        sched_cases = sched_cases[:2]
    sched_cases.append((("ready",), "dpa_now", False, 2, None, True, "due_now"))
    sched_cases.append(((), "never", True, 2, None, True, "due_now"))
    # the DPA's arrival: reader thread inside receive_dpa (line granularity) against the I/O thread
    sched_cases.append((("ready",), "dpa_now", False, 5, None, False, "dpa_window"))
    sched_cases.append((("ready", "waiting_dwa"), "dpa_later", False, 5, None, False, "dpa_window"))
    # the cases whose reconnect is due at stop() get line points in the dial path; with them the free orders of the threads that
    # stop() wakes multiply, so non-default choices at blocking points are bounded too (2) in those cases
    bounds = [(bound, 2) if len(c) > 6 and c[6] == "due_now" and tier != "thorough" else bound for c in sched_cases]
    tasks = [(functools.partial(sched_execute, c), sched_check, b) for c, b in zip(sched_cases, bounds)]
    sched = 0
    for c, r in zip(sched_cases, scheddfs.explore_many(tasks)):
        sched += r["executions"]
        for (key, detail), choices in r["violations"]:
            rep.add(Violation(key, f"[schedules, bound {bound}] choices {choices}: {detail}", {"case": list(map(str, c)), "choices": choices}))
        rep.sample({"schedule_exploration": str(c), "preemption_bound": bound, "free_switch_bound": 2 if len(c) > 6 and c[6] == "due_now" and tier != "thorough" else None, "executions": r["executions"], "distinct_outcomes": len(r["outcomes"]),
                    "branching_points": r["max_points"]})
    rep.sample({"cases": total, "example_case": str(cases[len(cases) // 2])})
    rep.cov.update({"evaluations": total + sched, "distinct_nontrivial": total + sched, "schedules": sched, "exhaustive": True,
                    "rule": "product of 0..2 (quick) / 0..3 (thorough) connections each in {connecting, awaiting CER, awaiting CEA, ready, awaiting DWA, disconnecting} x peer "
                            "reaction to the DPR {DPA at once, DPA after 1 s, never, close} x force x wait timeout {2, 5} x newcomer {none, at second 0, at second 1} / a "
                            "lost persistent peer whose reconnect deadline falls into the window; every case is distinct; plus schedule exploration (bound 1, "
                            "call granularity + every line of stop()) of stop() against the I/O thread for 2 (quick) / 4 (thorough) cases, and for 2 cases whose "
                            "persistent-peer reconnect is due in the instant of stop() with every line of _reconnect_peers/_connect_to_peer (quick: at most 2 "
                            "non-default choices at blocking points); extra cases: output pending behind the DPR, CER completing inside the window, two "
                            "ready connections of one peer, a node listening on four addresses"})
    return rep.finish()


def replay(case):
    c = case.get("case")
    if not c:
        return []
    import ast
    parsed = (ast.literal_eval(c[0]), c[1], c[2] == "True", int(c[3]), None if c[4] == "None" else int(c[4]), c[5] == "True") + ((c[6],) if len(c) > 6 else ())
    if "choices" in case:
        obs_vs, ch = scheddfs.replay_choices(functools.partial(sched_execute, parsed), case["choices"])
        return [Violation(k, d) for k, d in sched_check(obs_vs)]
    return [Violation(k, d) for k, d in run_case(parsed)]
