"""C19 - per-transaction and per-connection state is released; nothing grows with use.

E3-style fixpoint check: complete cycles (transactions, connection attempts of every outcome) are
repeated N times on the real node; the structurally discovered sizes of every container reachable
from the node, its peers, connections and applications, the number of live simulated threads and
of unclosed fake sockets must not depend on N.
"""
from __future__ import annotations

import collections
import itertools

from .. import common, env, refcodec as rc, scenario, simkernel as sk
from ..common import Report, Violation

CFG = {
    "node": {"ips": ["10.0.0.1"], "tcp_port": 3868, "cer_timeout": 2, "cea_timeout": 2, "idle_timeout": 3, "dwa_timeout": 2, "wakeup": 1,
             "retransmit_queue_size": 4},
    "peers": [{"name": "peer1.example.org"},
              {"name": "peer2.example.org", "ips": ["10.1.0.2"], "persistent": True, "reconnect_wait": 1, "always_reconnect": True},
              {"name": "peer3.example.org"}],      # configured, never has a standing connection: its connections are its only ones
    "apps": [{"id": env.APP_ACCT, "acct": True, "peers": [0, 1, 2], "behaviour": "answer"},
             {"id": env.APP_AUTH, "auth": True, "peers": [0, 2]}],     # holds its requests until an ("ans", j) event
}


# ------------------------------------------------------------------ cycles: each leaves the node at rest
def standing(sc):
    """The standing ready inbound connection of peer1 (socket index 0), re-established when needed."""
    s = sc.socks[0] if sc.socks else None
    if s is None or s.fs.closed or s.env_closed:
        raise sk.HarnessError("standing connection lost")
    return s


def cyc_in_req(sc, i):
    sc.apply(("m", sc.std, "req"))


def cyc_out_req(sc, i):
    sc.apply(("send", 0, "own"))
    sc.apply(("m", sc.std, "ans"))


def cyc_out_req_timeout_late_answer(sc, i):
    sc.apply(("m", sc.std, "dwr"))
    sc.apply(("send", 0, "own"))
    sc.apply(("tick", 3))
    sc.apply(("m", sc.std, "ans"))
    sc.apply(("m", sc.std, "dwr"))       # keep the standing connection from idling out


def cyc_dwr_in(sc, i):
    sc.apply(("m", sc.std, "dwr"))


def cyc_dwr_out(sc, i):
    sc.apply(("tick", 4))
    sc.apply(("m", sc.std, "dwa"))


def cyc_rejected(sc, i):
    for n in ("rq:3:own:missing", "rq:3:foreign", "rq:9:own", "req", "req_T"):
        sc.apply(("m", sc.std, n))


def cyc_unknown_answer(sc, i):
    sc.apply(("m", sc.std, "ans_unknown"))
    sc.apply(("m", sc.std, "ans_nohost"))


def _fresh_accept(sc):
    sc.max_socks = len(sc.socks) + 1
    sc.apply(("accept",))
    return len(sc.socks) - 1


def cyc_conn_peer_closes(sc, i):
    c = _fresh_accept(sc)
    sc.apply(("m", c, "cer_p0"))
    sc.apply(("m", c, "req"))
    sc.apply(("eof", c))


def cyc_conn_node_closes(sc, i):
    c = _fresh_accept(sc)
    sc.apply(("m", c, "cer_p0"))
    sc.apply(("m", c, "dpr"))
    sc.apply(("eof", c))


def cyc_conn_silent_timeout(sc, i):
    c = _fresh_accept(sc)
    for _ in range(3):
        sc.apply(("m", sc.std, "dwr"))
        sc.apply(("tick", 1))
    sc.apply(("m", sc.std, "dwr"))


def cyc_conn_unknown_peer(sc, i):
    c = _fresh_accept(sc)
    sc.apply(("m", c, "cer_unknown"))
    sc.apply(("eof", c))


def cyc_conn_no_common(sc, i):
    c = _fresh_accept(sc)
    sc.apply(("m", c, "cer_nocommon"))
    sc.apply(("eof", c))


def cyc_idle_peer_closes(sc, i):
    c = _fresh_accept(sc)
    sc.apply(("m", c, "cer_p2"))
    sc.apply(("m", c, "req"))
    sc.apply(("eof", c))


def cyc_idle_peer_dpr(sc, i):
    c = _fresh_accept(sc)
    sc.apply(("m", c, "cer_p2"))
    sc.apply(("m", c, "dpr"))
    sc.apply(("eof", c))


def cyc_idle_peer_no_common(sc, i):
    c = _fresh_accept(sc)
    sc.apply(("m", c, "cer_nocommon@2"))
    sc.apply(("eof", c))


def cyc_idle_peer_reset(sc, i):
    c = _fresh_accept(sc)
    sc.apply(("m", c, "cer_p2"))
    sc.apply(("rst", c))


def cyc_idle_peer_garbage(sc, i):
    c = _fresh_accept(sc)
    sc.apply(("m", c, "cer_v6p2"))
    sc.apply(("m", c, "badlen"))


def cyc_two_connections_same_instant(sc, i):
    # a second connection's reader closes it (garbage) in the very instant the standing connection has traffic, in both orders
    # (threads run in creation order, so both "closing connection older than the busy one" and the reverse are produced)
    c = _fresh_accept(sc)
    sc.apply(("m", c, "cer_p2"))
    if i % 3 == 0:
        sc.apply(("x", c, "badlen", sc.std, "dwr"))
    elif i % 3 == 1:
        c2 = _fresh_accept(sc)
        sc.apply(("m", c2, "cer_p0"))
        sc.apply(("x", c, "badlen", c2, "dwr"))
        sc.apply(("eof", c2))
    else:
        # both readers close their connection in the same instant
        c2 = _fresh_accept(sc)
        sc.apply(("m", c2, "cer_p0"))
        sc.apply(("x", c, "badlen", c2, "badlen"))


def cyc_conn_garbage(sc, i):
    c = _fresh_accept(sc)
    sc.apply(("m", c, "cer_p0"))
    sc.apply(("m", c, "badlen"))


def cyc_conn_reset(sc, i):
    c = _fresh_accept(sc)
    sc.apply(("rst", c))


def _await_dial(sc, plan):
    """Let the persistent peer2's reconnect come due with the given connect outcome; returns its socket index."""
    n0 = len(sc.socks)
    sc.max_socks = n0 + 1
    if not sc.apply(("plan", plan)):
        raise sk.HarnessError("plan not enabled")
    for _ in range(3):
        sc.apply(("m", sc.std, "dwr"))
        sc.apply(("tick", 1))
        if len(sc.socks) > n0 or plan == "refused" and not sc.nw.world.connect_plan:
            break
    return n0 if len(sc.socks) > n0 else None


def cyc_dial_refused(sc, i):
    _await_dial(sc, "refused")


def cyc_dial_async_fail(sc, i):
    c = _await_dial(sc, "inprogress")
    if c is not None:
        sc.apply(("resolve", c, False))


def cyc_dial_cea_rejected(sc, i):
    c = _await_dial(sc, "ok")
    if c is not None:
        sc.apply(("m", c, "cea_3xxx"))


def cyc_dial_ok_then_lost(sc, i):
    c = _await_dial(sc, "ok")
    if c is not None:
        sc.apply(("m", c, "cea_ok"))
        sc.apply(("send", 0, "own"))
        sc.apply(("m", c, "ans"))
        sc.apply(("m", sc.std, "ans"))
        sc.apply(("eof", c))


def cyc_retransmitted_duplicate(sc, i):
    sc.apply(("m", sc.std, "rt:a:0:1"))
    sc.apply(("m", sc.std, "rt:a:1:1"))     # same origin and end-to-end id with the T flag: rejected by the node
    sc.apply(("m", sc.std, "rt:a:1:2"))     # T flag, never answered before: delivered


def cyc_request_pending_when_connection_lost(sc, i):
    # a request is still with the application when its connection goes away; the application's answer is then refused
    c = _fresh_accept(sc)
    sc.apply(("m", c, "cer_p2"))
    sc.apply(("m", c, "req_auth"))
    j = len(sc.nw.requests) - 1
    sc.apply(("eof", c) if i % 2 == 0 else ("rst", c))
    sc.apply(("ans", j))


def cyc_request_pending_answered_late(sc, i):
    # the same, but the application answers while the connection still exists (the ordinary held-request transaction)
    sc.apply(("m", sc.std, "req_auth"))
    j = len(sc.nw.requests) - 1
    sc.apply(("m", sc.std, "dwr"))
    sc.apply(("ans", j))


def cyc_dial_no_descriptor(sc, i):
    sc.nw.world.socket_fail = 1             # the next socket() raises EMFILE
    for _ in range(2):
        sc.apply(("m", sc.std, "dwr"))
        sc.apply(("tick", 1))
    sc.nw.world.socket_fail = 0


CYCLES = collections.OrderedDict([
    ("inbound-request-answered", cyc_in_req), ("outbound-request-answered", cyc_out_req),
    ("outbound-request-timeout-then-late-answer", cyc_out_req_timeout_late_answer),
    ("DWR-from-peer", cyc_dwr_in), ("DWR-from-node", cyc_dwr_out), ("rejected-requests", cyc_rejected),
    ("unexpected-answers", cyc_unknown_answer),
    ("connection-closed-by-peer", cyc_conn_peer_closes), ("connection-after-DPR", cyc_conn_node_closes),
    ("connection-without-CER-timed-out", cyc_conn_silent_timeout), ("connection-unknown-peer", cyc_conn_unknown_peer),
    ("connection-no-common-application", cyc_conn_no_common), ("connection-garbage-closed-by-node", cyc_conn_garbage),
    ("connection-reset-before-CER", cyc_conn_reset),
    ("dial-refused", cyc_dial_refused), ("dial-failed-asynchronously", cyc_dial_async_fail),
    ("dial-CEA-rejected", cyc_dial_cea_rejected), ("dial-established-then-lost", cyc_dial_ok_then_lost),
    ("retransmitted-duplicate-rejected", cyc_retransmitted_duplicate), ("dial-socket-creation-fails", cyc_dial_no_descriptor),
    ("only-connection-of-a-peer-closed-by-peer", cyc_idle_peer_closes), ("only-connection-of-a-peer-after-DPR", cyc_idle_peer_dpr),
    ("only-connection-of-a-peer-no-common-application", cyc_idle_peer_no_common), ("only-connection-of-a-peer-reset", cyc_idle_peer_reset),
    ("request-pending-at-the-application-when-its-connection-is-lost", cyc_request_pending_when_connection_lost),
    ("request-held-by-the-application-then-answered", cyc_request_pending_answered_late),
    ("only-connection-of-a-peer-garbage", cyc_idle_peer_garbage), ("garbage-and-traffic-on-two-connections-in-one-instant", cyc_two_connections_same_instant),
])

def _cyc_flood(n):
    def cyc(sc, i):
        # a younger connection closes itself on garbage in the instant in which the standing connection has n answers to write
        c = _fresh_accept(sc)
        sc.apply(("m", c, "cer_p2"))
        sc.apply(("xn", sc.std, "dwr", n, c, "badlen"))
    return cyc


# cycles that are too expensive for 40 repetitions and for the pair product: repeated 1 and 3 times, under both scheduling policies
EXTRA_CYCLES = collections.OrderedDict((f"{n}-wake-ups-while-another-connection-closes-itself", _cyc_flood(n)) for n in (12, 50, 700))

SKIP_ATTRS = {"statistics", "counters", "statistics_history", "logger", "connection_logger", "stats_logger", "msg_dump", "avp_def",
              "accepted"}       # `accepted` is the harness queue shim's own observation list
NO_RECURSE = {"socket_peers"}   # a fileno index: its size is bounded by descriptor reuse, its values are stale by design
CONTAINERS = (dict, list, set, frozenset, collections.deque, tuple)


def measure(sc, stats=False):
    """Structurally discovered container sizes + live threads + unclosed sockets (documented windows excluded).
    stats=True: the statistics records are measured as well (for runs long enough to have filled their fixed-size windows)."""
    nw = sc.nw
    node = nw.node
    out = collections.Counter()
    seen = set()

    # breadth-first, so that every object is measured under its shortest path from a root (with a depth-first walk an object first met
    # at the end of a long path - a Peer inside the routing table - was cut off by the depth limit and then skipped on the short one)
    todo = collections.deque()

    def push(obj, path, depth):
        if id(obj) in seen or depth > 7:
            return
        seen.add(id(obj))
        todo.append((obj, path, depth))

    def visit(obj, path, depth):
        if isinstance(obj, CONTAINERS):
            if isinstance(obj, collections.deque) and obj.maxlen is not None:
                out[path + "(bounded deque: capped)"] += min(len(obj), 0)
                return          # a fixed-size window: neither its length nor what its (at most maxlen) entries hold is growth
            elif not isinstance(obj, tuple):
                out[path] += len(obj)
            items = obj.values() if isinstance(obj, dict) else obj
            for v in list(items):
                if isinstance(v, CONTAINERS) or hasattr(v, "__dict__"):
                    push(v, path + "[]", depth + 1)
            return
        d = getattr(obj, "__dict__", None)
        if d is None:
            return
        mod = type(obj).__module__ or ""
        if not (mod.startswith("diameter.node") or mod.startswith("mc.")):
            return
        for k, v in d.items():
            if (k in SKIP_ATTRS and not (stats and k in ("statistics", "counters", "statistics_history"))) or k.startswith("_sim") or k == "nw":
                continue
            if k in NO_RECURSE:
                out[f"{path}.{k}"] += len(v)
                continue
            if isinstance(v, CONTAINERS) or hasattr(v, "__dict__"):
                push(v, f"{path}.{k}", depth + 1)
    push(node, "node", 0)
    for i, a in enumerate(nw.apps):
        push(a, f"app{i}", 0)
    while todo:
        visit(*todo.popleft())
    out["live simulated threads"] = len(nw.world.live_threads())
    out["unclosed fake sockets"] = sum(1 for s in nw.world.socks if not s.closed)
    out["fake pipes"] = len(nw.world.pipes)
    # the duplicate-detection window is documented as bounded by retransmit_queue_size per origin
    for k in list(out):
        if "_sent_answers" in k:
            out.pop(k)
    return {k: v for k, v in out.items()}


def run_sequence(names, reps, policy=None, stats=False, transport=None):
    """Fresh node with the standing connection; each named cycle repeated `reps` times in turn; returns the measure.
    policy: thread kind that runs only when nothing else can (the kernel's second scheduling policy), or None."""
    cfg_ = CFG
    if transport:
        import copy as _copy
        cfg_ = _copy.deepcopy(CFG)
        cfg_["node"]["transport"] = transport       # "sctp": the node's SCTP listen / accept / dial / send / close branches
    sc = scenario.Scenario(cfg_, max_socks=1, start_plan=["refused"], app_timeout=2)
    try:
        nw = sc.start()
        nw.world.low_kind = policy
        # the persistent peer2 is unreachable unless a cycle plans another outcome for the next connect()
        plan = nw.world.connect_plan
        nw.world.on_connect = lambda sock: plan.popleft() if plan else "refused"
        sc.max_socks = len(sc.socks) + 1
        if not sc.apply(("accept",)):
            raise sk.HarnessError("cannot establish the standing connection")
        sc.std = len(sc.socks) - 1
        if not sc.apply(("m", sc.std, "cer_p0")):
            raise sk.HarnessError("cannot establish the standing connection")
        for name in names:
            f = CYCLES.get(name) or EXTRA_CYCLES[name]
            for i in range(reps):
                f(sc, i)
        # come to rest: answer everything, let every poll interval pass, keep the standing connection alive
        for _ in range(7):
            if not sc.apply(("m", sc.std, "dwr")):
                raise sk.HarnessError("the standing connection was lost during the cycles")
            sc.apply(("tick", 1))
        fails = nw.thread_failures()
        m = measure(sc, stats)
        return m, fails
    except sk.Livelock as e:
        return {"livelock": 1}, [("livelock", str(e))]
    finally:
        sc.close()


# ------------------------------------------------------------------ E4: a handshake completing in the instant in which the connection fails
SCHED_VARIANTS = ("cea-at-cea-timeout", "cer-at-cer-timeout")
SCHED_CFG = {
    "node": {"ips": ["10.0.0.1"], "tcp_port": 3868, "cer_timeout": 2, "cea_timeout": 2, "idle_timeout": 600, "dwa_timeout": 600, "wakeup": 6,
             "retransmit_queue_size": 4},
    "peers": [{"name": "peer1.example.org"}, {"name": "peer2.example.org"}],
    "apps": [{"id": env.APP_ACCT, "acct": True, "peers": [0, 1], "behaviour": "answer"}],
}


def sched_execute(variant, prefix):
    """The CEA / CER of a connection is handled by its reader thread in the very instant in which the I/O thread gives the connection up
    (capabilities-exchange timeout, reset).  Every interleaving (bounded) at line granularity in the handlers and the close path; then
    the application sends 1 and then 3 more requests towards that peer: whatever became of the connection, what the node retains must
    not depend on the number of requests."""
    import copy
    from .. import scheddfs
    import diameter.node.node as nn
    import diameter.node.peer as pp
    sk.install()
    pts = {}
    for name in ("receive_cer", "receive_cea", "_check_timers", "close_connection_socket", "remove_peer_connection", "_remove_peer_connection",
                 "_flag_connection_as_ready", "_assign_peer_connection", "_is_registered_connection"):
        if hasattr(nn.Node, name):
            pts[sk.code_of(nn.Node, name)] = None
    sk.set_line_points(pts)
    ch = scheddfs.Chooser(prefix)
    cfg = copy.deepcopy(SCHED_CFG)
    start_plan = ["refused"]
    if variant != "cer-at-cer-timeout":
        cfg["peers"][0].update({"ips": ["10.1.0.1"], "persistent": True, "reconnect_wait": 600})
        start_plan = ["ok"]
    sc = scenario.Scenario(cfg, chooser=ch, max_socks=3, start_plan=start_plan, app_timeout=1)
    try:
        nw = sc.start()
        if variant == "cer-at-cer-timeout":
            sc.apply(("accept",))
        s = sc.socks[0]
        if variant != "cea-then-reset":
            nw.world.jump(3)
        nw.world.points_on = True
        ch.window = True
        if variant == "cea-then-reset":
            nw.deliver(s.fs, sc.message(s, "cea_ok"), run=False)
            s.env_closed = True
            nw.reset(s.fs)
            sc.sync()
        else:
            sc.apply(("m", 0, "cea_ok" if variant == "cea-at-cea-timeout" else "cer_p0"))
        ch.window = False
        nw.world.points_on = False
        sc.apply(("tick", 7))

        def one_request():
            sc.apply(("send", 0, "own"))
            # a peer that is still connected answers; then everything times out / winds down
            for x in sc.socks:
                if not x.fs.closed and not x.env_closed:
                    sc.apply(("m", x.idx, "ans"))
            sc.apply(("tick", 2))
        one_request()
        sc.apply(("tick", 6))
        m1 = measure(sc)
        for _ in range(3):
            one_request()
        sc.apply(("tick", 6))
        m4 = measure(sc)
        # (the per-request growth of Node._app_waiting_answer is a known finding of the repetition phase and is not re-judged here)
        grown = tuple(sorted((k, m1.get(k, 0), m4.get(k, 0)) for k in set(m1) | set(m4) if m1.get(k, 0) != m4.get(k, 0) and "_app_waiting_answer" not in k))
        obs = (variant, grown, s.fs.closed, tuple(r[2] for r in sc.send_results), tuple(nw.thread_failures()))
        return obs, ch
    finally:
        sc.close()


def sched_check(obs):
    variant, grown, closed, results, fails = obs
    return [(f"growth:{k}:per:request-after-handshake-racing-with-failure:{variant}:under-some-schedule",
             f"{k} = {a} after 1 request, {b} after 4 (connection socket closed={closed}, send_request outcomes {results})") for k, a, b in grown]


def sched_selfclose(variant, prefix):
    """A ready connection ends itself (a frame with an impossible length: its reader thread calls PeerConnection.close, which marks it
    closed and asks the I/O thread to take it out of the tables).  Twice in a row on fresh connections of one peer: the first time
    under the default schedule, the second time with every interleaving (bounded) of the reader thread inside close() / demand_attention
    against the I/O thread at line granularity.  What the node retains after two such connections equals what it retains after one."""
    import copy
    from .. import scheddfs
    import diameter.node.node as nn
    import diameter.node.peer as pp
    sk.install()
    pts = {sk.code_of(pp.PeerConnection, "close"): None, sk.code_of(pp.PeerConnection, "demand_attention"): None}
    for name in ("close_connection_socket", "remove_peer_connection", "_remove_peer_connection"):
        if hasattr(nn.Node, name):
            pts[sk.code_of(nn.Node, name)] = None
    sk.set_line_points(pts)
    ch = scheddfs.Chooser(prefix)
    cfg = copy.deepcopy(SCHED_CFG)
    sc = scenario.Scenario(cfg, chooser=ch, max_socks=1, start_plan=["refused"], app_timeout=1)
    try:
        nw = sc.start()
        sc.apply(("accept",))
        sc.apply(("m", 0, "cer_p0"))        # standing connection of the other peer
        ms = []
        for rnd in range(2):
            sc.max_socks = len(sc.socks) + 1
            if not sc.apply(("accept",)):
                raise sk.HarnessError("set-up: accept refused")
            c = len(sc.socks) - 1
            if not sc.apply(("m", c, "cer_p1")):
                raise sk.HarnessError("set-up: CER refused")
            if rnd == 1:
                nw.world.points_on = True
                ch.window = True
            sc.apply(("m", c, variant))
            ch.window = False
            nw.world.points_on = False
            for _ in range(3):
                sc.apply(("m", 0, "dwr"))
                sc.apply(("tick", 3))
            ms.append(measure(sc))
        m1, m2 = ms
        grown = tuple(sorted((k, m1.get(k, 0), m2.get(k, 0)) for k in set(m1) | set(m2) if m1.get(k, 0) != m2.get(k, 0)))
        obs = ("self-closing:" + variant, grown, sc.socks[-1].fs.closed, (), tuple(nw.thread_failures()))
        return obs, ch
    finally:
        sc.close()


def sched_selfclose_check(obs):
    variant, grown, closed, results, fails = obs
    return [(f"growth:{k}:per:connection-ending-itself:{variant}:under-some-schedule",
             f"{k} = {a} after one such connection, {b} after two (socket of the second closed={closed})") for k, a, b in grown]


HANDOVER_VARIANTS = [(msg, fault) for msg in ("cea_ok", "cer_p0") for fault in ("eof", "clock")]


def handover_execute(variant, k):
    """The CEA / CER is being handled by the reader thread; at kernel step k of that handling (line granularity) the peer closes the
    connection / the capabilities-exchange deadline passes, and the I/O thread reacts at once.  Then 1 + 3 requests, as above."""
    import copy
    from .. import handover
    import diameter.node.node as nn
    msg, fault = variant
    sk.install()
    pts = {}
    for name in ("receive_cer", "receive_cea", "_flag_connection_as_ready", "_assign_peer_connection", "_is_registered_connection", "_receive_message"):
        if hasattr(nn.Node, name):
            pts[sk.code_of(nn.Node, name)] = None
    sk.set_line_points(pts)
    ch = handover.HandOverChooser("_handle_connections")
    cfg = copy.deepcopy(SCHED_CFG)
    start_plan = ["refused"]
    if msg == "cea_ok":
        cfg["peers"][0].update({"ips": ["10.1.0.1"], "persistent": True, "reconnect_wait": 600})
        start_plan = ["ok"]
    sc = scenario.Scenario(cfg, chooser=ch, max_socks=3, start_plan=start_plan, app_timeout=1)
    try:
        nw = sc.start()
        if msg != "cea_ok":
            sc.apply(("accept",))
        s = sc.socks[0]
        fired = []

        def inject():
            fired.append(1)
            if fault == "eof":
                s.env_closed = True
                s.fs.eof = True
                nw.world.obs("env_eof", s.fs.sid)
            else:
                nw.world.jump(3)
            ch.active = True
        base = nw.world.steps
        if k is not None:
            nw.world.step_hooks[base + k] = inject
        nw.world.points_on = True
        sc.apply(("m", 0, msg))
        nw.world.points_on = False
        steps = nw.world.steps - base
        nw.world.step_hooks.clear()
        ch.active = False
        sc.apply(("tick", 7))

        def one_request():
            sc.apply(("send", 0, "own"))
            for x in sc.socks:
                if not x.fs.closed and not x.env_closed:
                    sc.apply(("m", x.idx, "ans"))
            sc.apply(("tick", 2))
        one_request()
        sc.apply(("tick", 6))
        m1 = measure(sc)
        for _ in range(3):
            one_request()
        sc.apply(("tick", 6))
        m4 = measure(sc)
        grown = tuple(sorted((key, m1.get(key, 0), m4.get(key, 0)) for key in set(m1) | set(m4)
                             if m1.get(key, 0) != m4.get(key, 0) and "_app_waiting_answer" not in key))
        vs = [(f"growth:{key}:per:request-after-handshake-interrupted-by-{fault}:{msg}",
               f"{fault} at kernel step {k} of the handling of {msg}: {key} = {a} after 1 request, {b} after 4 (socket closed={s.fs.closed}, "
               f"send_request outcomes {[r[2] for r in sc.send_results]})") for key, a, b in grown]
        if msg != "cea_ok" and k is not None and fired:
            # the same interruption on two further inbound connections (same relative step): what one such connection attempt leaves
            # behind must not add up
            for _ in range(2):
                sc.max_socks = len(sc.socks) + 1
                if not sc.apply(("accept",)):
                    break
                c = len(sc.socks) - 1
                s2 = sc.socks[c]

                def inject2(s2=s2):
                    if fault == "eof":
                        s2.env_closed = True
                        s2.fs.eof = True
                        nw.world.obs("env_eof", s2.fs.sid)
                    else:
                        nw.world.jump(3)
                    ch.active = True
                nw.world.step_hooks[nw.world.steps + k] = inject2
                nw.world.points_on = True
                sc.apply(("m", c, msg))
                nw.world.points_on = False
                nw.world.step_hooks.clear()
                ch.active = False
                sc.apply(("tick", 7))
                if not s2.fs.closed and not s2.env_closed:
                    sc.apply(("eof", c))
            sc.apply(("tick", 6))
            m7 = measure(sc)
            # (connections that survived their handshake were closed by the peer above; compare with the state after the first one, whose
            # connection may still be open: only thread / socket / table counts beyond "one open connection" can differ legitimately)
            if not s.fs.closed and not s.env_closed:
                sc.apply(("eof", 0))
                sc.apply(("tick", 6))
                m7 = measure(sc)
                m4 = None
            if m4 is not None:
                g2 = tuple(sorted((key, m4.get(key, 0), m7.get(key, 0)) for key in set(m4) | set(m7)
                                  if m4.get(key, 0) != m7.get(key, 0) and "_app_waiting_answer" not in key))
                vs += [(f"growth:{key}:per:handshake-interrupted-by-{fault}:{msg}",
                        f"{fault} at kernel step {k} of the handling of {msg}, on three connections in turn: {key} = {a} after the first, {b} after the third")
                       for key, a, b in g2]
        for f in nw.thread_failures():
            vs.append((f"thread-died:after-handshake-interrupted-by-{fault}:{msg}", f"step {k}: {f}"))
        return bool(fired), steps, vs
    except sk.Livelock as e:
        return True, 0, [("livelock:node-threads-never-reach-quiescence", f"{variant} step {k}: {e}")]
    finally:
        sc.close()


STOP_STATES = ("dial-in-progress", "dialled-awaiting-CEA", "inbound-awaiting-CER", "ready", "ready+dial-in-progress")


def stop_residue(args):
    """stop() (graceful and forced) with connections in the middle of being established: afterwards no worker thread is alive and no
    socket is open, whatever state the connections were in."""
    state, force = args
    import copy
    cfg = copy.deepcopy(SCHED_CFG)
    cfg["node"]["wakeup"] = 1
    plan = []
    if "dial" in state:
        cfg["peers"][0].update({"ips": ["10.1.0.1"], "persistent": True, "reconnect_wait": 600})
        plan = ["inprogress" if "in-progress" in state else "ok"]
    sc = scenario.Scenario(cfg, max_socks=4, start_plan=plan or ["refused"], app_timeout=1)
    try:
        nw = sc.start()
        if state == "inbound-awaiting-CER":
            sc.apply(("accept",))
        if state.startswith("ready"):
            sc.max_socks = len(sc.socks) + 1
            sc.apply(("accept",))
            sc.apply(("m", len(sc.socks) - 1, "cer_p1"))
        sc.apply(("stop", force, 2))
        for _ in range(12):
            for x in sc.socks:
                if not x.fs.closed and not x.env_closed and any(f.h.is_request and f.h.code == 282 for f in x.out):
                    sc.apply(("m", x.idx, "dpa"))
            sc.apply(("tick", 1))
        vs = []
        returned = any(r[1] == "stop_returned" for r in nw.world.log)
        live = sorted(str(t.kind or t.name) for t in nw.world.live_threads())
        open_socks = [(x.sid, x.kind) for x in nw.world.socks if not x.closed]
        case = {"stop_residue": [state, force]}
        if not returned:
            vs.append(("shutdown-residue:stop-did-not-return", f"{state}, force={force}", case))
        if live:
            vs.append((f"shutdown-residue:worker-threads-alive-after-stop:{'+'.join(sorted(set(live)))}", f"{state}, force={force}: {live}", case))
        if open_socks:
            vs.append(("shutdown-residue:sockets-open-after-stop", f"{state}, force={force}: {open_socks}", case))
        return vs
    except sk.Livelock as e:
        return [("livelock:node-threads-never-reach-quiescence", f"stop residue {state}: {e}", {"stop_residue": [state, force]})]
    finally:
        sc.close()


def work(args):
    names, lo, hi = args[:3]
    policy = args[3] if len(args) > 3 else None
    stats = args[4] if len(args) > 4 else False
    transport = args[5] if len(args) > 5 else None
    m_lo, f_lo = run_sequence(names, lo, policy, stats, transport)
    m_hi, f_hi = run_sequence(names, hi, policy, stats, transport)
    grown = {k: (m_lo.get(k, 0), m_hi.get(k, 0)) for k in set(m_lo) | set(m_hi) if m_lo.get(k, 0) != m_hi.get(k, 0)}
    return names, lo, hi, grown, f_lo + f_hi, sum(m_hi.values()), (policy, transport) if transport else policy


def run(tier):
    rep = Report("C19", tier, "model_checking")
    common.pool()
    names = list(CYCLES)
    lo, hi = (5, 40) if tier != "thorough" else (10, 100)
    jobs = [((n,), lo, hi) for n in names]
    # every cycle also under the second scheduling policy: the I/O thread runs only when no other thread can
    jobs += [((n,), lo, hi, "_handle_connections") for n in names]
    jobs += [((n,), 1, 3, pol) for n in EXTRA_CYCLES for pol in (None, "_handle_connections")]
    # every cycle on a node that listens on SCTP and whose peers are SCTP peers
    jobs += [((n,), 3, 12, None, False, "sctp") for n in names]
    # hours of sparse traffic (a watchdog exchange every 4 s, 27 and 53 minutes): the statistics records have filled their fixed-size
    # windows long before the shorter run ends, so their number is the same after both
    jobs += [(("DWR-from-node",), 400, 800, None, True), (("DWR-from-peer", "DWR-from-node"), 300, 600, None, True)]
    # every ordered pair of cycles: the second kind of activity must not resurrect growth left dormant by the first
    pairs = list(itertools.permutations(names, 2))
    jobs += [(p, 2, 6) for p in pairs]
    if tier == "thorough":
        jobs += [(t, 2, 4) for k, t in enumerate(itertools.permutations(names, 3)) if k % 3 == common.seed() % 3]
    if tier == "thorough":
        jobs += [((n,), 10, 1000) for n in ("inbound-request-answered", "outbound-request-answered", "connection-closed-by-peer", "dial-refused")]
    total_cycles = 0
    distinct = set()
    results = common.pmap(work, jobs, chunksize=1)
    single_growth = {}      # cycle -> set of measure keys that grow when it is repeated alone
    for names_, lo_, hi_, grown, fails, size, pol_ in results:
        if len(names_) == 1 and lo_ < 100:
            single_growth.setdefault(names_[0], set()).update(grown)
    for names_, lo_, hi_, grown, fails, size, pol_ in results:
        total_cycles += (lo_ + hi_) * len(names_)
        distinct.add(size)
        for k, (a, b) in sorted(grown.items()):
            if len(names_) > 1:
                if any(k in single_growth.get(n, ()) for n in names_):
                    continue        # already reported for the single cycle that causes it
                key = f"growth:{k}:per-combination:{'+'.join(names_)}"
            else:
                key = f"growth:{k}:per:{names_[0]}"
            tr_ = None
            if isinstance(pol_, tuple):
                pol_, tr_ = pol_         # (the key does not name the transport: the same growth over TCP and SCTP is one finding)
            rep.add(Violation(key, f"sequence {'+'.join(names_)}{' (I/O thread scheduled last)' if pol_ else ''}{' over ' + tr_ if tr_ else ''}: {k} = {a} after {lo_} repetitions, {b} after {hi_}",
                              {"cycles": list(names_), "lo": lo_, "hi": hi_, "policy": pol_, "transport": tr_}))
        for f in fails:
            rep.notes.append(f"simulated thread failed during {names_}: {f} (judged by C14, not here)")
    import functools
    from .. import scheddfs
    bound = 2 if tier == "thorough" else 1
    tasks = [(functools.partial(sched_execute, v), sched_check, bound) for v in SCHED_VARIANTS] + [(functools.partial(sched_selfclose, "badlen"), sched_selfclose_check, bound)]
    nsched = 0
    for v, r in zip(SCHED_VARIANTS + ("selfclose:badlen",), (scheddfs.explore_many(tasks) if tier != "thorough" else scheddfs.explore_many_capped(tasks, 1, 600))):
        nsched += r["executions"]
        for (key, detail), choices in r["violations"]:
            rep.add(Violation(key, f"[{v}, bound {bound}] choices {choices}: {detail}", {"sched": v, "choices": choices}))
        rep.sample({"schedule_exploration": f"{v}: reader thread completing the handshake vs I/O thread giving the connection up, then 1 + 3 requests",
                    "preemption_bound": bound, "bound_completed_without_cap": r.get("bound_completed", bound), "capped": r.get("capped", False),
                    "executions": r["executions"], "distinct_outcomes": len(r["outcomes"]), "branching_points": r["max_points"]})
    from .. import handover
    for v in HANDOVER_VARIANTS:
        n, pts, vs = handover.enumerate_points(functools.partial(handover_execute, v))
        nsched += n
        for (key, detail), k in vs:
            rep.add(Violation(key, detail, {"handover": list(v), "step": k}))
        rep.sample({"fault_at_every_step": f"{v[1]} at every kernel step of the handling of {v[0]}, I/O thread reacts at once; then 1 + 3 requests", "points": pts, "executions": n})
    rep.cov["schedules"] = nsched
    residue_jobs = [(st, f) for st in STOP_STATES for f in (False, True)]
    for vsl in common.pmap(stop_residue, residue_jobs, chunksize=1):
        for key, detail, case in vsl:
            rep.add(Violation(key, detail, case))
    rep.cov["stop_residue_cases"] = len(residue_jobs)
    rep.sample({"cycles": names})
    rep.sample({"example_measure_keys": sorted(run_sequence(("inbound-request-answered",), 1)[0])[:25]})
    rep.cov.update({"states": len(jobs) * 2, "transitions": total_cycles, "traces_validated_against_impl": len(jobs) * 2,
                    "distinct_measures": len(distinct), "repetitions": [lo, hi],
                    "explanation": "each of 28 complete cycles repeated N_lo and N_hi times on a fresh node under both scheduling policies (5/40 quick, 10/100 and 10/1000 thorough) and every ordered "
                                   "pair of cycles repeated 2 and 6 times (thorough: also a VERIF_SEED-rotated third of all ordered triples, 2 and 4 times); the measure (sizes of all containers "
                                   "structurally reachable from node, peers, connections, applications except statistics and the bounded duplicate window; live "
                                   "threads; unclosed sockets; pipes) must be equal for both repetition counts"})
    rep.assumptions += ["every request is answered and every extra connection has ended before the measure is taken; one standing connection keeps the node reachable"]
    return rep.finish()


def replay(case):
    if "stop_residue" in case:
        return [Violation(k, d) for k, d, c in stop_residue(tuple(case["stop_residue"]))]
    if "handover" in case:
        fired, steps, vs = handover_execute(tuple(case["handover"]), case["step"])
        return [Violation(k, d) for k, d in vs]
    if "sched" in case:
        import functools
        from .. import scheddfs
        if case["sched"].startswith("selfclose:"):
            obs, ch = scheddfs.replay_choices(functools.partial(sched_selfclose, case["sched"].split(":", 1)[1]), case["choices"])
            return [Violation(k, d) for k, d in sched_selfclose_check(obs)]
        obs, ch = scheddfs.replay_choices(functools.partial(sched_execute, case["sched"]), case["choices"])
        return [Violation(k, d) for k, d in sched_check(obs)]
    names, lo, hi, grown, fails, size, pol = work((tuple(case["cycles"]), case.get("lo", 2), case.get("hi", 5), case.get("policy"), False, case.get("transport")))
    return [Violation(f"growth:{k}:per:{names[-1]}", f"{a} -> {b}") for k, (a, b) in grown.items()]
