"""C20 - answers built from requests mirror the header and use the paired answer class.

E1: every command class of the registry x all 256 flag octets x boundary header values
x with/without Session-Id / Proxy-Info, through Message.to_answer, Node._generate_answer and
Application.generate_answer.
"""
from __future__ import annotations

import sys

from .. import common, refcodec as rc, simkernel as sk
from ..common import Report, Violation

R, P, E, T = 0x80, 0x40, 0x20, 0x10
IDS = [(0, 0, 0), (1, 1, 1), (0x80000000, 0xffffffff, 0x7fffffff), (0xffffffff, 0x80000000, 0xfffffffe)]


def registry():
    """Returns lists of (label, class, code, expected answer class, kind)."""
    import diameter.message as dm
    from diameter.message import commands as cmds
    from diameter.message._base import DefinedMessage, UndefinedMessage, Message

    def subs(c):
        for s in c.__subclasses__():
            yield s
            yield from subs(s)
    typed = [c for c in subs(DefinedMessage)]
    out = []
    by_name = {}
    for c in typed:
        by_name.setdefault((c.__module__, c.__name__), c)
    for c in typed:
        n = c.__name__
        code = getattr(c, "code", 0)
        if n.endswith("Request"):
            want = by_name.get((c.__module__, n[:-7] + "Answer"))
            out.append((n, c, code, want, "typed-request"))
        elif n.endswith("Answer"):
            continue
        else:
            out.append((n, c, code, c, "typed-base"))
    for code, c in sorted(cmds.all_commands.items()):
        if issubclass(c, UndefinedMessage):
            out.append((c.__name__, c, code, c, "untyped"))
    out.append(("UndefinedMessage", UndefinedMessage, 8_388_607, UndefinedMessage, "unknown"))
    out.append(("Message", Message, 8_388_606, Message, "generic"))
    return out


def check_header(label, kind, req_hdr_before, req, ans, want_cls, via, out, case):
    from diameter.message._base import Message
    v, fl, code, app, hbh, e2e = req_hdr_before
    h = ans.header
    if want_cls is not None and type(ans) is not want_cls:
        if not (kind in ("untyped", "unknown", "generic") and type(ans) is Message):
            out.append(Violation(f"{via}:answer-class:{kind}", f"{label}: got {type(ans).__name__}, want {want_cls.__name__}", case))
    if (h.version, h.command_code, h.application_id, h.hop_by_hop_identifier, h.end_to_end_identifier) != (v, code, app, hbh, e2e):
        out.append(Violation(f"{via}:header-fields-not-copied:{kind}",
                             f"{label}: answer {(h.version, h.command_code, h.application_id, h.hop_by_hop_identifier, h.end_to_end_identifier)} "
                             f"request {(v, code, app, hbh, e2e)}", case))
    if h.command_flags & (R | E | T):
        out.append(Violation(f"{via}:R/E/T-not-cleared:{kind}", f"{label}: request flags {fl:#04x} answer flags {h.command_flags:#04x}", case))
    if (h.command_flags & P) != (fl & P):
        out.append(Violation(f"{via}:P-bit-not-kept:{kind}:request-P={1 if fl & P else 0}",
                             f"{label}: request flags {fl:#04x} answer flags {h.command_flags:#04x}", case))
    if h.command_flags & 0x0f != 0 and not (fl & 0x0f):
        out.append(Violation(f"{via}:reserved-bits-set:{kind}", f"{label}: {h.command_flags:#04x}", case))
    rh = req.header
    if (rh.version, rh.command_flags, rh.command_code, rh.application_id, rh.hop_by_hop_identifier, rh.end_to_end_identifier) != req_hdr_before:
        out.append(Violation(f"{via}:request-header-modified:{kind}", f"{label}: {req_hdr_before} -> {(rh.version, rh.command_flags, rh.command_code, rh.application_id, rh.hop_by_hop_identifier, rh.end_to_end_identifier)}", case))


def hdr_tuple(m):
    h = m.header
    return (h.version, h.command_flags, h.command_code, h.application_id, h.hop_by_hop_identifier, h.end_to_end_identifier)


def work(args):
    lo, hi = args
    from diameter.message._base import Message
    out = []
    n = 0
    reg = registry()[lo:hi]
    for label, cls, code, want, kind in reg:
        # (a) directly constructed instance, all 256 flag octets x boundary ids
        for fl in range(256):
            for version, (app, hbh, e2e) in ((1, IDS[fl % 4]), (0 if fl % 2 else 255, IDS[(fl + 1) % 4])):
                n += 1
                case = {"class": label, "flags": fl, "ids": [version, app, hbh, e2e], "path": "direct"}
                try:
                    req = cls()
                    req.header.version = version
                    req.header.command_flags = fl
                    req.header.application_id = app
                    req.header.hop_by_hop_identifier = hbh
                    req.header.end_to_end_identifier = e2e
                    if kind in ("unknown", "generic"):
                        req.header.command_code = code
                    before = hdr_tuple(req)
                    ans = req.to_answer()
                    check_header(label, kind, before, req, ans, want, "to_answer", out, case)
                except Exception as e:
                    out.append(Violation(f"to_answer:raises:{kind}", f"{case}: {type(e).__name__}: {e}", case))
        # (b) decoded request (R set), with and without Session-Id / Proxy-Info; request bytes must not change
        for fl in range(128, 256):
            for with_avps in (False, True):
                n += 1
                app, hbh, e2e = IDS[(fl + with_avps) % 4]
                avps = []
                if with_avps:
                    avps = [rc.utf8(263, "sess;1;2"), rc.octets(264, b"peer.example.org"), rc.octets(296, b"example.org"),
                            rc.grouped(284, [rc.octets(280, b"proxy.example.org"), rc.octets(33, b"state")])]
                wire = rc.enc_msg(code, fl, app, hbh, e2e, avps)
                case = {"class": label, "flags": fl, "with_avps": with_avps, "path": "decoded"}
                try:
                    req = Message.from_bytes(wire)
                    if kind == "typed-request" and type(req) is not cls:
                        continue        # another class is registered for this code (judged by C02)
                    if kind in ("typed-base",):
                        continue        # a decoded message is never the bare base class
                    before = hdr_tuple(req)
                    b0 = req.as_bytes() if kind.startswith("typed") else None
                    ans = req.to_answer()
                    check_header(label, kind, before, req, ans, want if kind == "typed-request" else None, "to_answer", out, case)
                    if b0 is not None and req.as_bytes() != b0:
                        out.append(Violation(f"to_answer:request-bytes-modified:{kind}", f"{case}", case))
                except Exception as e:
                    out.append(Violation(f"to_answer:raises:{kind}", f"{case}: {type(e).__name__}: {e}", case))
    return n, out


def work_helpers(args):
    """Node._generate_answer / Application.generate_answer for every typed request class."""
    lo, hi = args
    sk.install()
    from diameter.node import Node
    from diameter.node.application import Application
    from diameter.message._base import Message
    out = []
    n = 0
    w = sk.World()
    try:
        node = Node("local.node.example", "local.realm.example")
        apps = {"auth": Application(4, is_auth_application=True), "acct": Application(3, is_acct_application=True)}
        for a in apps.values():
            a._node = node
        if not hasattr(node, "_generate_answer"):
            raise sk.HarnessError("Node._generate_answer no longer exists")
        def same_attr(a, b):
            if isinstance(a, list) and isinstance(b, list):
                return len(a) == len(b) and all(same_attr(x, y) for x, y in zip(a, b))
            if hasattr(a, "__dict__") and hasattr(b, "__dict__") and not isinstance(a, (str, bytes, int)):
                return type(a) is type(b) and a.__dict__.keys() == b.__dict__.keys() and all(same_attr(v, b.__dict__[k]) for k, v in a.__dict__.items())
            return a == b

        for label, cls, code, want, kind in registry()[lo:hi]:
            if kind in ("untyped", "unknown"):
                # read-only commands: the helpers can only copy attributes, not AVPs; the copies must exist and be equal
                pis = [rc.grouped(284, [rc.octets(280, f"proxy{i}.example.org".encode()), rc.octets(33, b"state")]) for i in range(3)]
                for npi in (0, 1, 2, 3):
                    for with_sess in (False, True):
                        avps = ([rc.utf8(263, "sess;9")] if with_sess else []) + [rc.octets(264, b"peer.example.org")] + pis[:npi]
                        for appid in (4, 0, 0xffffffff):
                            wire = rc.enc_msg(code, R | P, appid, 0x1234, 0x5678, avps)
                            for via in ("node", "auth"):
                                n += 1
                                case = {"class": label, "proxy_infos": npi, "session": with_sess, "application_id": appid, "via": via}
                                try:
                                    req = Message.from_bytes(wire)
                                    ans = node._generate_answer(None, req) if via == "node" else apps[via].generate_answer(req, result_code=2001)
                                    tag = "node" if via == "node" else "app"
                                    check_header(label, kind, hdr_tuple(req), req, ans, None, f"generate_answer[{tag}]", out, case)
                                    if with_sess and getattr(ans, "session_id", None) != "sess;9":
                                        out.append(Violation(f"generate_answer[{tag}]:session-id-not-copied:untyped", f"{case}", case))
                                    if npi and not (hasattr(ans, "proxy_info") and same_attr(ans.proxy_info, req.proxy_info)):
                                        out.append(Violation(f"generate_answer[{tag}]:proxy-info-not-copied:untyped:{npi}",
                                                             f"{case}: answer has {getattr(ans, 'proxy_info', None)!r}", case))
                                    oh = getattr(ans, "origin_host", None)
                                    if oh != b"local.node.example":
                                        out.append(Violation(f"generate_answer[{tag}]:origin-host-not-local:untyped", f"{case}: {oh!r}", case))
                                except Exception as e:
                                    out.append(Violation("generate_answer:raises:untyped", f"{case}: {type(e).__name__}: {e}", case))
                continue
            if kind != "typed-request" or want is None:
                continue
            ans_attrs = {d.attr_name: d for d in want.avp_def}
            req_attrs = {d.attr_name: d for d in cls.avp_def}
            for fl, appid in ((R, 4), (R | P, 4), (R | P | T, 4), (R | E | T, 4), (R | 0x0f, 4), (R | P, 0), (R, 0xffffffff), (R | P, 3)):
                for with_avps in (False, True):
                    avps = [rc.octets(264, b"peer.example.org"), rc.octets(296, b"example.org")]
                    pi = rc.grouped(284, [rc.octets(280, b"proxy.example.org"), rc.octets(33, b"state")])
                    pi2 = rc.grouped(284, [rc.octets(280, b"proxy2.example.org"), rc.octets(33, b"state2")])
                    if with_avps:
                        avps = [rc.utf8(263, "sess;1;2")] + avps + [pi, pi2]
                    wire = rc.enc_msg(code, fl, appid, 0x1234, 0x5678, avps)
                    for via in ("node", "auth", "acct"):
                        n += 1
                        case = {"class": label, "flags": fl, "application_id": appid, "with_avps": with_avps, "via": via}
                        try:
                            req = Message.from_bytes(wire)
                            if type(req) is not cls:
                                continue
                            before = hdr_tuple(req)
                            b0 = req.as_bytes()
                            if via == "node":
                                ans = node._generate_answer(None, req)
                            else:
                                ans = apps[via].generate_answer(req, result_code=2001)
                            check_header(label, kind, before, req, ans, want, f"generate_answer[{'node' if via == 'node' else 'app'}]", out, case)
                            if req.as_bytes() != b0:
                                out.append(Violation("generate_answer:request-bytes-modified", f"{case}", case))
                            f = rc.Frame(ans.as_bytes())
                            tag = "node" if via == "node" else "app"
                            if "origin_host" in ans_attrs and f.get(264) != b"local.node.example":
                                out.append(Violation(f"generate_answer[{tag}]:origin-host-not-local", f"{case}: {f.get(264)}", case))
                            if "origin_realm" in ans_attrs and f.get(296) != b"local.realm.example":
                                out.append(Violation(f"generate_answer[{tag}]:origin-realm-not-local", f"{case}: {f.get(296)}", case))
                            if with_avps and "session_id" in ans_attrs and "session_id" in req_attrs and f.get(263) != b"sess;1;2":
                                out.append(Violation(f"generate_answer[{tag}]:session-id-not-copied", f"{case}: {f.get(263)}", case))
                            if "session_id" in ans_attrs and not with_avps and f.get(263) is not None:
                                out.append(Violation(f"generate_answer[{tag}]:session-id-invented", f"{case}: {f.get(263)}", case))
                            if "proxy_info" in ans_attrs and "proxy_info" in req_attrs:
                                wantpi = [rc.dec_avp_at(pi, 0)[3], rc.dec_avp_at(pi2, 0)[3]] if with_avps else []
                                if f.getall(284) != wantpi:
                                    out.append(Violation(f"generate_answer[{tag}]:proxy-info-not-copied", f"{case}: {f.getall(284)} != {wantpi}", case))
                            if via != "node":
                                if f.result_code != 2001:
                                    out.append(Violation("generate_answer[app]:result-code-not-set", f"{case}: {f.result_code}", case))
                        except Exception as e:
                            out.append(Violation(f"generate_answer:raises", f"{case}: {type(e).__name__}: {e}", case))
    finally:
        w.shutdown()
    return n, out


def work_lifetimes(_):
    """One Application object over its life: every sequence of <= 5 operations over {add to node A, add to node B, generate an
    answer, stop}; every answer must carry the identity of the node the application belongs to at that moment."""
    import itertools
    sk.install()
    from diameter.node import Node
    from diameter.node.application import SimpleThreadingApplication, Application
    from diameter.node.peer import Peer
    from diameter.message.commands import AccountingRequest
    out = []
    n = 0
    ops = ("A", "B", "answer", "stop")
    for L in range(2, 6):
        for seq in itertools.product(ops, repeat=L):
            if seq[0] not in ("A", "B") or seq[-1] != "answer" or "answer" not in seq[:-1] and len({o for o in seq if o in "AB"}) < 2 and "stop" not in seq:
                continue
            n += 1
            w = sk.World()
            try:
                nodes = {"A": Node("host-a.example.org", "realm-a.example"), "B": Node("host-b.example.net", "realm-b.example")}
                app = Application(3, is_acct_application=True)
                cur = None
                case = {"lifetime": list(seq)}
                for op in seq:
                    if op in nodes:
                        nd = nodes[op]
                        p = nd.peers.get("peer.example.org") or nd.add_peer("aaa://peer.example.org", "example.org")
                        nd.add_application(app, [p])
                        cur = nd
                    elif op == "stop":
                        app.stop()
                    else:
                        req = AccountingRequest()
                        req.session_id = "s;1"
                        req.header.hop_by_hop_identifier = 7
                        req.header.end_to_end_identifier = 8
                        ans = app.generate_answer(req, result_code=2001)
                        f = rc.Frame(ans.as_bytes())
                        if f.get(264) != cur.origin_host.encode() or f.get(296) != cur.realm_name.encode():
                            out.append(Violation("generate_answer[app]:origin-not-the-current-node's:after-the-application-moved",
                                                 f"{case}: answer carries {f.get(264)}/{f.get(296)}, the application belongs to {cur.origin_host}/{cur.realm_name}", case))
                            break
            except Exception as e:
                out.append(Violation("generate_answer[app]:raises:over-the-application's-life", f"{case}: {type(e).__name__}: {e}", case))
            finally:
                w.shutdown()
    return n, out


def work_realms(_):
    """Applications registered for other realms than the node's (additional realms; a peer living in another realm): answers to
    requests addressed to every such realm still carry the *local* Origin-Host and Origin-Realm."""
    sk.install()
    from diameter.node import Node
    from diameter.node.application import Application
    from diameter.message.commands import AccountingRequest, CreditControlRequest
    out = []
    n = 0
    w = sk.World()
    try:
        for extra_realms, peer_realm in ((["realm2.example"], "local.realm.example"), ([], "partner.example"), (["realm2.example", "realm3.example"], "partner.example")):
            node = Node("local.node.example", "local.realm.example")
            peer = node.add_peer("aaa://peer.partner.example", peer_realm)
            apps = {"acct": Application(3, is_acct_application=True), "auth": Application(4, is_auth_application=True)}
            for a in apps.values():
                node.add_application(a, [peer], realms=list(extra_realms))
            for dest in ("local.realm.example", "realm2.example", "realm3.example", "partner.example", "nowhere.example", None):
                for kind, app in apps.items():
                    n += 1
                    req = AccountingRequest() if kind == "acct" else CreditControlRequest()
                    req.session_id = "s;realm"
                    req.origin_host = b"peer.partner.example"
                    req.origin_realm = peer_realm.encode()
                    if dest is not None:
                        req.destination_realm = dest.encode()
                    req.header.hop_by_hop_identifier = 5
                    req.header.end_to_end_identifier = 6
                    case = {"realms": extra_realms, "peer_realm": peer_realm, "destination_realm": dest, "via": kind}
                    try:
                        ans = app.generate_answer(req, result_code=2001)
                        f = rc.Frame(ans.as_bytes())
                        if f.get(264) != b"local.node.example" or f.get(296) != b"local.realm.example":
                            out.append(Violation("generate_answer[app]:origin-not-local:application-serving-another-realm",
                                                 f"{case}: answer carries {f.get(264)} / {f.get(296)}", case))
                    except Exception as e:
                        out.append(Violation("generate_answer[app]:raises:application-serving-another-realm", f"{case}: {type(e).__name__}: {e}", case))
    finally:
        w.shutdown()
    return n, out


def _call(job):
    f, a = job
    return f(a)


# ------------------------------------------------------------------ answers the running node builds itself (every rejection path)
NODE_PATHS = ("realm-not-served", "application-unsupported", "missing-avp", "duplicate", "handler-raises", "delivered")


def work_node_paths(args):
    """A started node, one ready connection; requests with / without Session-Id and 0..2 Proxy-Info x flag octets that make the
    node answer by itself: 3003, 3007, 5005, 5012 (T-flagged duplicate), 5012 (handler raises), and an application answer."""
    from .. import env, scenario
    path, = args
    out = []
    n = 0
    cfg = {"node": {"ips": ["10.0.0.1"], "tcp_port": 3868, "idle_timeout": 600, "wakeup": 5},
           "peers": [{"name": "peer1.example.org"}],
           "apps": [{"id": env.APP_ACCT, "acct": True, "peers": [0], "behaviour": "raise" if path == "handler-raises" else "answer"}]}
    pis = [rc.grouped(284, [rc.octets(280, f"proxy{i}.example.org".encode()), rc.octets(33, b"state%d" % i)]) for i in range(2)]
    for fl in (R | P, R, R | P | T, R | 0x0f):
        for npi in (0, 1, 2):
            sc = scenario.Scenario(cfg, max_socks=1)
            try:
                nw = sc.start()
                sc.apply(("accept",))
                sc.apply(("m", 0, "cer_p0"))
                s = sc.socks[0]
                kw = dict(host="peer1.example.org", hbh=0x4242, e2e=0x4343, flags=fl, session="sess;node", extra=pis[:npi])
                if path == "realm-not-served":
                    req = env.acr(dest_realm="nowhere.example", **kw)
                elif path == "application-unsupported":
                    req = env.acr(app=9, **kw)
                elif path == "missing-avp":
                    req = env.acr(missing=(485,), **kw)
                elif path == "duplicate":
                    first = env.acr(**dict(kw, flags=R | P, extra=[]))
                    nw.deliver(s.fs, first)
                    sc.sync()
                    req = env.acr(**dict(kw, flags=fl | T, hbh=0x4243))
                else:
                    req = env.acr(**kw)
                before = len(s.out)
                nw.deliver(s.fs, req)
                sc.sync()
                f = rc.Frame(req)
                n += 1
                case = {"node_path": path, "flags": fl, "proxy_infos": npi}
                answers = [a for a in s.out[before:] if not a.h.is_request and a.h.code == 271 and a.h.hbh == f.h.hbh]
                if len(answers) != 1:
                    out.append(Violation(f"node-answer[{path}]:not-exactly-one-answer", f"{case}: {answers}", case))
                    continue
                a = answers[0]
                if (a.h.version, a.h.code, a.h.app, a.h.hbh, a.h.e2e) != (f.h.version, f.h.code, f.h.app, f.h.hbh, f.h.e2e):
                    out.append(Violation(f"node-answer[{path}]:header-not-mirrored", f"{case}: {a!r}", case))
                if a.h.flags & 0xb0 or bool(a.h.flags & P) != bool(fl & P):
                    out.append(Violation(f"node-answer[{path}]:flags", f"{case}: flags {a.h.flags:#x} for request flags {fl:#x}", case))
                if a.get(264) != b"node.example.org" or a.get(296) != b"example.org":
                    out.append(Violation(f"node-answer[{path}]:origin-not-local", f"{case}: {a.get(264)} {a.get(296)}", case))
                if a.get(263) != b"sess;node":
                    out.append(Violation(f"node-answer[{path}]:session-id-not-copied", f"{case}: {a.get(263)}", case))
                if a.getall(284) != f.getall(284):
                    out.append(Violation(f"node-answer[{path}]:proxy-info-not-copied", f"{case}: answer has {len(a.getall(284))} of {npi}", case))
            finally:
                sc.close()
    return n, out


def run(tier):
    rep = Report("C20", tier, "exploration")
    common.pool()
    reg = registry()
    kinds = {}
    for label, cls, code, want, kind in reg:
        kinds[kind] = kinds.get(kind, 0) + 1
        if kind == "typed-request" and want is None:
            rep.add(Violation("registry:request-class-without-answer-class", f"{label}", {"class": label}))
    jobs = [(work, (lo, lo + 8)) for lo in range(0, len(reg), 8)]
    jobs += [(work_helpers, (lo, lo + 12)) for lo in range(0, len(reg), 12)]
    jobs += [(work_node_paths, (p,)) for p in NODE_PATHS]
    jobs += [(work_lifetimes, None), (work_realms, None)]
    total = 0
    for n, vs in common.pmap(_call, jobs, chunksize=1):
        total += n
        rep.extend(vs)
    rep.sample({"classes_by_kind": kinds})
    rep.sample({"example": "CreditControlRequest(flags=0x90, app=1, hbh=1, e2e=1).to_answer() -> CreditControlAnswer, flags 0x00"})
    rep.cov.update({"evaluations": total, "distinct_nontrivial": total, "classes": len(reg), "exhaustive": True,
                    "rule": "every class reachable from DefinedMessage.__subclasses__ (requests, bases), every untyped command of the registry, "
                            "UndefinedMessage and Message x all 256 flag octets x 2 versions x rotating boundary ids (direct instances); decoded "
                            "requests for all 128 R-set flag octets with/without Session-Id, Origin and two Proxy-Info; helpers for every typed "
                            "request x 5 flag octets x with/without AVPs x {node, auth app, acct app}; all cases distinct by construction"})
    rep.assumptions += ["untyped (read-only) commands are exempt from the Origin/Session/Proxy clause"]
    return rep.finish()


def replay(case):
    if "node_path" in case:
        return work_node_paths((case["node_path"],))[1]
    if "peer_realm" in case:
        return work_realms(None)[1]
    if "lifetime" in case:
        return [v for v in work_lifetimes(None)[1] if v.case.get("lifetime") == case["lifetime"]]
    # re-run the whole class (cheap) and return what concerns it
    reg = registry()
    idx = [i for i, r in enumerate(reg) if r[0] == case.get("class")]
    out = []
    for i in idx:
        out += work((i, i + 1))[1]
        out += work_helpers((i, i + 1))[1]
    return out
