"""E4 on the sequential codec: two threads use the codec at the same time (as the node's reader and writer threads of
different connections do); every interleaving with a bounded number of preemptions at *call* granularity inside the
codec modules is executed, and each thread's result must equal what the same call returns when run alone.

Catches state that a change moved from a call's locals to module/class scope (scratch packers and unpackers, caches that
are filled in two steps), which no single-threaded enumeration can see.
"""
from __future__ import annotations

import functools

from . import scheddfs, simkernel as sk


def codec_codes():
    import diameter.message._base as mb
    import diameter.message.avp.avp as ma
    import diameter.message.avp.generator as mg
    import diameter.message.commands._attributes as mattr
    from diameter.message import packer
    codes = []
    # AVP-level granularity: every function of the message / AVP / attribute layers; the primitive packer calls (several per
    # AVP) are not scheduling points of their own - state shared between two AVPs' worth of work is what is looked for
    for m in (mb, ma, mg, mattr):
        codes += sk._all_code_objects(m)
    return codes


def _execute(jobs, prefix):
    """jobs: list of (name, callable) -> result (bytes / comparable).  Returns (tuple of results or exception reprs), chooser."""
    sk.install()
    sk.set_line_points({})
    sk.set_call_points(codec_codes())
    ch = scheddfs.Chooser(prefix)
    w = sk.World(chooser=ch)
    try:
        out = [None] * len(jobs)

        def body(i, fn):
            try:
                out[i] = ("ok", fn())
            except Exception as e:        # the library's own errors are results too
                out[i] = ("raised", type(e).__name__)
        w.points_on = True
        ch.window = True
        for i, (name, fn) in enumerate(jobs):
            sk.spawn(functools.partial(body, i, fn), name)
        w.run(max_steps=60_000)
        ch.window = False
        w.points_on = False
        died = tuple(repr(t.exc) for t in w.threads if t.exc is not None)
        return (tuple(out), died), ch
    finally:
        w.shutdown()
        sk.set_call_points([])


def _exec(make_jobs, prefix):
    return _execute(make_jobs(), prefix)


def _check(names, sequential, obs):
    results, died = obs
    vs = []
    for n, got, want in zip(names, results, sequential):
        if got != want:
            g = got[1].hex()[:120] if got and isinstance(got[1], (bytes, bytearray)) else repr(got)[:160]
            x = want[1].hex()[:120] if isinstance(want[1], (bytes, bytearray)) else repr(want)[:160]
            vs.append((f"concurrent-use:{n}:result-differs-from-the-sequential-result", f"{n}: got {g} want {x}"))
    if died:
        vs.append(("concurrent-use:thread-died", f"{died}"))
    return vs


def sequential_results(make_jobs):
    out = []
    for name, fn in make_jobs():
        try:
            out.append(("ok", fn()))
        except Exception as e:
            out.append(("raised", type(e).__name__))
    return out


def explore(make_jobs, bound=1, time_cap=None):
    """make_jobs() -> list of (name, callable); called afresh for every execution (no object is shared between executions;
    must be picklable, e.g. a functools.partial of a module-level function).  Every thread's result must equal the result
    of the same call made alone."""
    names = [n for n, _ in make_jobs()]
    seq = sequential_results(make_jobs)
    return scheddfs.explore(functools.partial(_exec, make_jobs), functools.partial(_check, names, seq), bound, time_cap=time_cap)
