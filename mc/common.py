"""Shared plumbing: environment pinning, repo import path, evidence, findings, workers."""
from __future__ import annotations

import hashlib
import json
import multiprocessing as mp
import os
import sys
import time

VERIF = os.path.dirname(os.path.dirname(os.path.abspath(__file__)))
REPO = os.environ.get("VERIF_REPO", "/repo")
SRC = os.path.join(REPO, "src")
NPROC = int(os.environ.get("VERIF_NPROC", "16"))


def pin_environment():
    """Re-exec once with the fixed interpreter environment (hash seed, TZ, no bytecode)."""
    want = {"PYTHONHASHSEED": "0", "TZ": "UTC", "PYTHONDONTWRITEBYTECODE": "1",
            "DIAMETER_VERIF": "1"}
    if any(os.environ.get(k) != v for k, v in want.items()):
        env = dict(os.environ)
        env.update(want)
        os.execve(sys.executable, [sys.executable] + sys.argv, env)
    time.tzset()


def use_repo():
    if SRC not in sys.path:
        sys.path.insert(0, SRC)
    import logging
    logging.disable(logging.CRITICAL)
    import diameter
    got = os.path.realpath(os.path.dirname(diameter.__file__))
    want = os.path.realpath(os.path.join(SRC, "diameter"))
    if got != want:
        raise RuntimeError(f"diameter imported from {got}, expected {want}")


def seed() -> int:
    try:
        return int(os.environ.get("VERIF_SEED", "0"))
    except ValueError:
        return 0


# ---------------------------------------------------------------- findings
def load_findings():
    p = os.path.join(VERIF, "known_findings.json")
    if not os.path.exists(p):
        return []
    with open(p) as f:
        return json.load(f).get("findings", [])


class Violation:
    __slots__ = ("key", "detail", "case")

    def __init__(self, key: str, detail: str, case=None):
        self.key = key          # stable signature: oracle clause + trigger class
        self.detail = detail
        self.case = case        # JSON-able replay payload


def jsonable(x):
    if isinstance(x, (bytes, bytearray)):
        return {"hex": bytes(x).hex()}
    if isinstance(x, dict):
        return {str(k): jsonable(v) for k, v in x.items()}
    if isinstance(x, (list, tuple, set, frozenset)):
        return [jsonable(v) for v in x]
    if isinstance(x, (str, int, float, bool)) or x is None:
        return x
    return repr(x)


class Report:
    """Collects what a check run covered and found; writes evidence; decides the exit code."""

    def __init__(self, prop: str, tier: str, level: str):
        self.prop = prop
        self.tier = tier
        self.level = level
        self.t0 = time.time()
        self.cov: dict = {"samples": []}
        self.assumptions: list[str] = []
        self.violations: dict[str, Violation] = {}
        self.violation_counts: dict[str, int] = {}
        self.notes: list[str] = []

    def add(self, v: Violation):
        self.violation_counts[v.key] = self.violation_counts.get(v.key, 0) + 1
        if v.key not in self.violations:
            self.violations[v.key] = v

    def extend(self, vs):
        for v in vs:
            self.add(v if isinstance(v, Violation) else Violation(*v))

    def count(self, key, n=1):
        self.cov[key] = self.cov.get(key, 0) + n

    def sample(self, s, limit=6):
        if len(self.cov["samples"]) < limit:
            self.cov["samples"].append(jsonable(s))

    def finish(self) -> int:
        known = {f["key"]: f for f in load_findings()
                 if f.get("property") == self.prop and f.get("status") == "known"}
        new = []
        seen_known = []
        for k, v in sorted(self.violations.items()):
            if k in known:
                seen_known.append((k, known[k]))
            else:
                new.append(v)
        evdir = os.environ.get("VERIF_EVIDENCE_DIR") or os.path.join(VERIF, "evidence")      # mutation runs write elsewhere
        os.makedirs(evdir, exist_ok=True)
        os.makedirs(os.path.join(VERIF, "replays"), exist_ok=True)
        cov = dict(self.cov)
        if not cov.get("samples"):
            cov["samples"] = ["(no samples recorded)"]
        cov["violation_keys"] = {k: self.violation_counts[k] for k in sorted(self.violations)}
        cov["known_findings_seen"] = [k for k, _ in seen_known]
        if self.notes:
            cov["notes"] = self.notes
        ev = {"property_id": self.prop, "tier": self.tier, "seed": seed(), "level": self.level,
              "coverage": jsonable(cov), "assumptions": self.assumptions,
              "wall_s": round(time.time() - self.t0, 2), "violations": len(new)}
        with open(os.path.join(evdir, f"{self.prop}.json"), "w") as f:
            json.dump(ev, f, indent=1, sort_keys=True)
        for k, fnd in seen_known:
            print(f"KNOWN-FINDING: property={self.prop} {k}: {fnd.get('what', '')}")
        for v in new:
            digest = hashlib.sha1(v.key.encode()).hexdigest()[:10]
            path = os.path.join(VERIF, "replays", f"{self.prop}-{digest}.json")
            with open(path, "w") as f:
                json.dump({"property": self.prop, "key": v.key, "detail": v.detail,
                           "occurrences": self.violation_counts[v.key],
                           "case": jsonable(v.case)}, f, indent=1)
            print(f"  {self.prop}: {v.key}: {v.detail[:600]}")
            print(f"VIOLATION property={self.prop} replay={path}")
        summary = {k: v for k, v in cov.items() if isinstance(v, (int, float, bool, str))}
        print(f"[{self.prop}] tier={self.tier} wall={ev['wall_s']}s violations={len(new)} "
              f"known={len(seen_known)} coverage={json.dumps(summary, sort_keys=True)}")
        sys.stdout.flush()
        return 1 if new else 0


# ---------------------------------------------------------------- workers
_pool = None


def _pin(q):
    # One simulated world = several OS threads of which exactly one runs at a time.  Keeping
    # them on one CPU makes the baton hand-over a local wake-up (measured 3.5x faster in this VM).
    try:
        os.sched_setaffinity(0, {q.get()})
    except Exception:
        pass


def pin_self():
    try:
        cpus = sorted(os.sched_getaffinity(0))
        os.sched_setaffinity(0, {cpus[-1]})
    except Exception:
        pass


def pool():
    """Long-lived fork pool; must be created before the parent starts any sim thread."""
    global _pool
    if _pool is None:
        ctx = mp.get_context("fork")
        cpus = sorted(os.sched_getaffinity(0))
        q = ctx.Queue()
        for i in range(NPROC):
            q.put(cpus[i % len(cpus)])
        _pool = ctx.Pool(NPROC, initializer=_pin, initargs=(q,))
    return _pool


class WorkerFailure(Exception):
    pass


class _Safe:
    """A worker that dies with a BaseException would hang Pool.map; turn it into a value."""

    def __init__(self, fn):
        self.fn = fn

    def __call__(self, x):
        try:
            return (True, self.fn(x))
        except BaseException:     # noqa
            import traceback
            return (False, traceback.format_exc())


def _unwrap(r):
    ok, v = r
    if not ok:
        raise WorkerFailure("worker failed:\n" + v)
    return v


def pmap(fn, items, chunksize=None):
    items = list(items)
    if not items:
        return []
    if NPROC <= 1 or len(items) == 1:
        return [fn(x) for x in items]
    if chunksize is None:
        chunksize = max(1, min(64, len(items) // (NPROC * 4) or 1))
    return [_unwrap(r) for r in pool().map(_Safe(fn), items, chunksize)]


def pimap(fn, items, chunksize=1):
    items = list(items)
    if NPROC <= 1:
        for x in items:
            yield fn(x)
        return
    for r in pool().imap_unordered(_Safe(fn), items, chunksize):
        yield _unwrap(r)


def close_pool():
    global _pool
    if _pool is not None:
        _pool.terminate()
        _pool.join()
        _pool = None


def digest(x) -> str:
    return hashlib.sha1(repr(x).encode()).hexdigest()[:12]
