"""Environment side of the node harness: world builder, peers, message menu, observations.

Everything the monitors treat as ground truth is recorded here by the environment itself
(what it sent, when it closed, what the node wrote to which fake socket, which handler
was invoked).  Messages the environment sends are built with refcodec, not the library.
"""
from __future__ import annotations

from . import simkernel as sk
from . import refcodec as rc
from .refcodec import FLAG_M

NODE_HOST = "node.example.org"
NODE_REALM = "example.org"
APP_ACCT = 3        # Diameter base accounting
APP_AUTH = 4        # credit control
APP_OTHER = 16777238    # Gx, used as "unregistered"
CMD_CER, CMD_DWR, CMD_DPR, CMD_ACR, CMD_CCR, CMD_STR = 257, 280, 282, 271, 272, 275
R, P, E, T = 0x80, 0x40, 0x20, 0x10

DEFAULT_CFG = {
    "node": {"ips": ["10.0.0.1"], "tcp_port": 3868, "cer_timeout": 2, "cea_timeout": 2,
             "idle_timeout": 3, "dwa_timeout": 2, "wakeup": 1, "retransmit_queue_size": 10240},
    "peers": [{"name": "peer1.example.org", "realm": NODE_REALM, "ips": [], "persistent": False}],
    "apps": [{"id": APP_ACCT, "acct": True, "peers": [0], "kind": "basic"}],
}


def _node_classes():
    from diameter.node import Node
    from diameter.node.application import Application, ThreadingApplication
    import diameter.node.node as nn
    return Node, Application, ThreadingApplication, nn


def make_app_classes():
    Node, Application, ThreadingApplication, nn = _node_classes()

    class RecApp(Application):
        """Basic application: records requests; answers only when the environment says so."""

        def __init__(self, nw, index, *a, **k):
            super().__init__(*a, **k)
            self.nw = nw
            self.index = index
            self.behaviour = "hold"

        def handle_request(self, message):
            j = len(self.nw.requests)
            self.nw.requests.append((self, message))
            self.nw.world.obs("handle_request", self.index, message.header.hop_by_hop_identifier,
                              message.header.end_to_end_identifier, j)
            if self.behaviour == "raise":
                raise RuntimeError("handler failure injected by the environment")
            if self.behaviour == "raise_notroutable":
                # the handler's own upstream request (proxy / lookup style) finds no peer: the library's own exception type
                from diameter.node import NotRoutable
                raise NotRoutable("no upstream peer (injected by the environment)")
            if self.behaviour == "answer_twice":
                # answers from within handle_request (the connection's own reader thread), and then once more: the second submission
                # must be refused, whatever thread it comes from
                self.send_answer(self.generate_answer(message, result_code=2001))
                try:
                    self.send_answer(self.generate_answer(message, result_code=2001))
                    self.nw.world.obs("inline_second_answer", "sent")
                except Exception as e:
                    self.nw.world.obs("inline_second_answer", type(e).__name__)
            if self.behaviour == "answer":
                self.send_answer(self.generate_answer(message, result_code=2001))
            if self.behaviour == "answer_norc":        # an answer that carries no Result-Code (e.g. Experimental-Result only)
                self.send_answer(self.generate_answer(message))

        def handle_answer(self, message):
            self.nw.world.obs("handle_answer", self.index, message.header.hop_by_hop_identifier,
                              message.header.end_to_end_identifier)

    class RecThreadApp(ThreadingApplication):
        def __init__(self, nw, index, *a, **k):
            super().__init__(*a, **k)
            self.nw = nw
            self.index = index
            self.behaviour = "answer"

        def handle_request(self, message):
            j = len(self.nw.requests)
            self.nw.requests.append((self, message))
            self.nw.world.obs("handle_request", self.index, message.header.hop_by_hop_identifier,
                              message.header.end_to_end_identifier, j)
            b = self.behaviour
            if callable(b):
                b = b(message)
            if b == "raise":
                raise RuntimeError("handler failure injected by the environment")
            if b == "none":
                return None
            if isinstance(b, tuple) and b[0] == "slow":
                nn.time.sleep(b[1])
            return self.generate_answer(message, result_code=2001)

        def handle_answer(self, message):
            self.nw.world.obs("handle_answer", self.index, message.header.hop_by_hop_identifier,
                              message.header.end_to_end_identifier)

    return RecApp, RecThreadApp


class NodeWorld:
    """One fresh world with one started node built from a config dict."""

    def __init__(self, cfg=None, chooser=None, rand_plan=None, start=True):
        sk.install()
        Node, Application, ThreadingApplication, nn = _node_classes()
        self.nn = nn
        self.cfg = cfg = cfg or DEFAULT_CFG
        self.world = sk.World(chooser=chooser, rand_plan=rand_plan)
        self.requests = []          # (app, message) in handler-invocation order
        self.timer_checks = []      # (now, conn ident) for every _check_timers call
        ncfg = cfg.get("node", {})
        # "transport": "sctp" = the node listens on SCTP only and every configured peer is an SCTP peer (fake `sctp` module)
        self.transport = ncfg.get("transport", "tcp")
        if self.transport == "sctp":
            node = Node(ncfg.get("host", NODE_HOST), ncfg.get("realm", NODE_REALM),
                        ip_addresses=list(ncfg.get("ips", ["10.0.0.1"])), sctp_port=ncfg.get("tcp_port", 3868))
        else:
            node = Node(ncfg.get("host", NODE_HOST), ncfg.get("realm", NODE_REALM),
                        ip_addresses=list(ncfg.get("ips", ["10.0.0.1"])), tcp_port=ncfg.get("tcp_port", 3868))
        for attr, key in (("cer_timeout", "cer_timeout"), ("cea_timeout", "cea_timeout"),
                          ("idle_timeout", "idle_timeout"), ("dwa_timeout", "dwa_timeout"),
                          ("wakeup_interval", "wakeup"), ("retransmit_queue_size", "retransmit_queue_size")):
            if key in ncfg:
                setattr(node, attr, ncfg[key])
        self.node = node
        self.world.probe = lambda: bool(getattr(node, "_stopping", False))
        self.peers = []
        for pc in cfg.get("peers", []):
            uri = f"aaa://{pc['name']}" + (";transport=sctp" if pc.get("transport", self.transport) == "sctp" else "")
            p = node.add_peer(uri, pc.get("realm", NODE_REALM), ip_addresses=list(pc.get("ips", [])),
                              is_persistent=pc.get("persistent", False), is_default=pc.get("default", False))
            for k in ("cer_timeout", "cea_timeout", "idle_timeout", "dwa_timeout", "reconnect_wait",
                      "always_reconnect"):
                if k in pc:
                    setattr(p, k, pc[k])
            self.peers.append(p)
        RecApp, RecThreadApp = make_app_classes()
        self.apps = []
        for i, ac in enumerate(cfg.get("apps", [])):
            kw = dict(application_id=ac["id"], is_acct_application=ac.get("acct", False),
                      is_auth_application=ac.get("auth", False))
            if ac.get("kind", "basic") == "threading":
                app = RecThreadApp(self, i, max_threads=ac.get("max_threads", 0), **kw)
            else:
                app = RecApp(self, i, **kw)
            if "behaviour" in ac:
                app.behaviour = ac["behaviour"]
            node.add_application(app, [self.peers[j] for j in ac.get("peers", [])],
                                 realms=list(ac.get("realms", [])) or None)
            self.apps.append(app)
        # observation wrapper: instants at which the node checks its timers
        if not hasattr(node, "_check_timers"):
            raise sk.HarnessError("Node._check_timers no longer exists")
        orig_ct = node._check_timers

        def ct(conn):
            self.timer_checks.append((self.world.now, conn.ident))
            fs = node.peer_sockets.get(conn.ident)
            self.world.obs("timer_check", fs.sid if fs is not None else -1, conn.state)
            return orig_ct(conn)
        node._check_timers = ct
        if not hasattr(node, "_reconnect_peers"):
            raise sk.HarnessError("Node._reconnect_peers no longer exists")
        orig_rp = node._reconnect_peers

        def rp():
            self.world.obs("reconnect_check")
            return orig_rp()
        node._reconnect_peers = rp
        # observation wrapper: answers the node accepted for transmission (send_message returned), by identifiers; "answered" in
        # the sense of the duplicate-detection clauses means this, whether or not the bytes later made it onto the wire
        self.answers_accepted = set()
        if hasattr(node, "send_message"):
            orig_sm = node.send_message

            def sm(conn, message):
                r = orig_sm(conn, message)
                try:
                    if not message.header.is_request:
                        self.answers_accepted.add((message.header.hop_by_hop_identifier, message.header.end_to_end_identifier))
                except Exception:
                    pass
                return r
            node.send_message = sm
        self.clients = []           # environment-side handles of accepted sockets
        self.driver_failures = []   # exceptions escaping node calls made by the driver itself (node.start)
        if start:
            self.start_node()
            self.world.run()

    def start_node(self):
        """node.start() as the embedding program calls it; an exception escaping it is recorded like a dead thread."""
        try:
            self.node.start()
        except sk.HarnessError:
            raise
        except Exception as e:
            self.driver_failures.append(("driver:node.start", "driver", repr(e)))

    # ---------------------------------------------------------------- environment actions
    def accept(self, ip="10.0.0.2", port=5555, run=True):
        if not self.world.listeners:
            raise sk.HarnessError("node has no listening socket")
        cs = type(self.world.listeners[0])()      # an SCTP listener hands out SCTP sockets
        cs.peer_name = (ip, port)
        cs.kind = "accepted"
        cs.in_backlog = True        # holds no descriptor number of the node's process until accept() returns it
        self.world.listeners[0].backlog.append(cs)
        self.clients.append(cs)
        self.world.obs("env_accept", cs.sid)
        if run:
            self.world.run()
        return cs

    def deliver(self, sock, data, run=True):
        sock.rbuf += data
        self.world.obs("env_deliver", sock.sid, bytes(data))
        if run:
            self.world.run()

    def eof(self, sock, run=True):
        sock.eof = True
        self.world.obs("env_eof", sock.sid)
        if run:
            self.world.run()

    def reset(self, sock, run=True):
        import errno
        sock.recv_err = errno.ECONNRESET
        self.world.obs("env_reset", sock.sid)
        if run:
            self.world.run()

    def tick(self, s=1):
        self.world.advance(s)

    def run(self):
        self.world.run()

    def dialled(self):
        return [s for s in self.world.socks if s.kind == "dialled"]

    def frames(self, sock):
        """New complete frames the node wrote to sock since the last call (decoded by refcodec)."""
        raws, rest = rc.split_frames(bytes(sock.sent[sock.sent_off:]))
        sock.sent_off = len(sock.sent) - len(rest)
        return [rc.Frame(r) for r in raws]

    def all_frames(self, sock):
        raws, rest = rc.split_frames(bytes(sock.sent))
        return [rc.Frame(r) for r in raws], rest

    def conn_of(self, sock):
        for ident, s in self.node.peer_sockets.items():
            if s is sock:
                return self.node.connections.get(ident)
        return None

    def answer(self, j, result_code=2001):
        """Application action: answer recorded request j (driver context)."""
        app, msg = self.requests[j]
        ans = app.generate_answer(msg, result_code=result_code)
        app.send_answer(ans)
        self.world.run()

    def close(self):
        self.world.shutdown()

    def thread_failures(self):
        return [(t.name, t.kind, repr(t.exc)) for t in self.world.threads if t.exc is not None] + list(self.driver_failures)


# ====================================================================== message menu
def cer(host="peer1.example.org", realm=NODE_REALM, acct=(APP_ACCT,), auth=(), hbh=0x101, e2e=0x201,
        with_origin_host=True, ip="10.0.0.2", extra=()):
    avps = []
    if with_origin_host:
        avps.append(rc.octets(264, host.encode()))
    avps += [rc.octets(296, realm.encode()), rc.addr(257, ip), rc.u32(266, 1), rc.utf8(269, "env", 0)]
    avps += [rc.u32(258, a) for a in auth]
    avps += [rc.u32(259, a) for a in acct]
    avps += list(extra)
    return rc.enc_msg(CMD_CER, R, 0, hbh, e2e, avps)


def cea(result=2001, host="peer1.example.org", realm=NODE_REALM, acct=(APP_ACCT,), auth=(), hbh=0, e2e=0,
        with_origin_host=True, with_result=True, ip="10.0.0.2"):
    avps = []
    if with_result:
        avps.append(rc.u32(268, result))
    if with_origin_host:
        avps.append(rc.octets(264, host.encode()))
    avps += [rc.octets(296, realm.encode()), rc.addr(257, ip), rc.u32(266, 1), rc.utf8(269, "env", 0)]
    avps += [rc.u32(258, a) for a in auth]
    avps += [rc.u32(259, a) for a in acct]
    return rc.enc_msg(CMD_CER, 0, 0, hbh, e2e, avps)


def dwr(host="peer1.example.org", realm=NODE_REALM, hbh=0x111, e2e=0x211):
    return rc.enc_msg(CMD_DWR, R, 0, hbh, e2e, [rc.octets(264, host.encode()), rc.octets(296, realm.encode())])


def dwa(host="peer1.example.org", realm=NODE_REALM, hbh=0, e2e=0, result=2001, with_origin_host=True,
        with_result=True):
    avps = []
    if with_result:
        avps.append(rc.u32(268, result))
    if with_origin_host:
        avps.append(rc.octets(264, host.encode()))
    avps.append(rc.octets(296, realm.encode()))
    return rc.enc_msg(CMD_DWR, 0, 0, hbh, e2e, avps)


def dpr(host="peer1.example.org", realm=NODE_REALM, hbh=0x121, e2e=0x221, cause=0):
    return rc.enc_msg(CMD_DPR, R, 0, hbh, e2e, [rc.octets(264, host.encode()), rc.octets(296, realm.encode()),
                                               rc.u32(273, cause)])


def dpa(host="peer1.example.org", realm=NODE_REALM, hbh=0, e2e=0, result=2001):
    return rc.enc_msg(CMD_DPR, 0, 0, hbh, e2e, [rc.u32(268, result), rc.octets(264, host.encode()),
                                               rc.octets(296, realm.encode())])


def acr(host="peer1.example.org", realm=NODE_REALM, dest_realm=NODE_REALM, app=APP_ACCT, hbh=0x131, e2e=0x231,
        flags=R | P, session="s;1", missing=(), extra=()):
    """Accounting-Request; `missing` = set of AVP codes to leave out."""
    parts = [(263, rc.utf8(263, session)), (264, rc.octets(264, host.encode())),
             (296, rc.octets(296, realm.encode())), (283, rc.octets(283, dest_realm.encode())),
             (480, rc.u32(480, 1)), (485, rc.u32(485, 1)), (259, rc.u32(259, APP_ACCT))]
    avps = [b for c, b in parts if c not in missing] + list(extra)
    return rc.enc_msg(CMD_ACR, flags, app, hbh, e2e, avps)


def aca(host="peer1.example.org", realm=NODE_REALM, app=APP_ACCT, hbh=0, e2e=0, result=2001, session="s;1",
        with_origin_host=True, with_result=True):
    avps = [rc.utf8(263, session)]
    if with_result:
        avps.append(rc.u32(268, result))
    if with_origin_host:
        avps.append(rc.octets(264, host.encode()))
    avps += [rc.octets(296, realm.encode()), rc.u32(480, 1), rc.u32(485, 1)]
    return rc.enc_msg(CMD_ACR, P, app, hbh, e2e, avps)


def ccr(host="peer1.example.org", realm=NODE_REALM, dest_realm=NODE_REALM, app=APP_AUTH, hbh=0x141, e2e=0x241,
        flags=R | P, session="s;2", missing=()):
    parts = [(263, rc.utf8(263, session)), (264, rc.octets(264, host.encode(), 0)),
             (296, rc.octets(296, realm.encode(), 0)), (283, rc.octets(283, dest_realm.encode())),
             (258, rc.u32(258, APP_AUTH)), (461, rc.utf8(461, "ctx@example")), (416, rc.u32(416, 1)),
             (415, rc.u32(415, 0))]
    avps = [b for c, b in parts if c not in missing]
    return rc.enc_msg(CMD_CCR, flags, app, hbh, e2e, avps)


def untyped_request(code=283, app=APP_ACCT, hbh=0x151, e2e=0x251, host="peer1.example.org", realm=NODE_REALM,
                    dest_realm=NODE_REALM, flags=R | P):
    """A command with no typed implementation (SIP-User-Authorization) or an unknown code."""
    return rc.enc_msg(code, flags, app, hbh, e2e, [rc.utf8(263, "s;3"), rc.octets(264, host.encode()),
                                                  rc.octets(296, realm.encode()),
                                                  rc.octets(283, dest_realm.encode())])


def handshake_in(nw, host="peer1.example.org", acct=(APP_ACCT,), auth=(), ip="10.0.0.2", hbh=0x101, e2e=0x201):
    """Accept + CER; returns (sock, CEA frame or None)."""
    s = nw.accept(ip)
    nw.deliver(s, cer(host=host, acct=acct, auth=auth, ip=ip, hbh=hbh, e2e=e2e))
    fr = nw.frames(s)
    return s, (fr[0] if fr else None)


def handshake_out(nw, sock, host="peer1.example.org", acct=(APP_ACCT,), auth=(), result=2001):
    """Answer the CER the node wrote on a dialled socket; returns the CER frame."""
    fr = nw.frames(sock)
    if not fr:
        return None
    c = fr[0]
    nw.deliver(sock, cea(result=result, host=host, acct=acct, auth=auth, hbh=c.h.hbh, e2e=c.h.e2e))
    return c
