"""E5 with a forced hand-over: a fault injected at every scheduling point of a window, followed at once by the thread that reacts to it.

Schedule DFS with preemption bound 1 cannot reach "thread A is at line L of a handler, *then* the environment does X, *then* thread B
reacts before A continues" when B would first have to be switched to and A later be interrupted (2 preemptions).  Here the fault is an
environment step (free) placed at every kernel step of the window in turn, and the one deviation from the default schedule is that the
reacting thread (by kind) runs next until it blocks.  N points -> N executions; complete over the numbered points.
"""
from __future__ import annotations

from . import common


class HandOverChooser:
    def __init__(self, kind):
        self.kind = kind
        self.active = False
        self.window = False
        self.after = []             # further environment steps, each taken when the reacting thread has blocked again

    def __call__(self, world, en):
        while self.active:
            for t in en:
                if t.kind == self.kind:
                    return t
            if self.after:
                # the reacting thread has dealt with the fault and blocked: the next environment step of a two-step fault happens now
                # (e.g. "the peer hangs up" ... "a new peer connects"), and the reacting thread runs again
                self.after.pop(0)()
                en = world.enabled()
                if not en:
                    break
                continue
            self.active = False         # it has blocked: back to the default schedule
        self.active = False
        return world.default_choice(en)


def _one(args):
    execute, k = args
    return k, execute(k)


def enumerate_points(execute, limit=400):
    """execute(k) -> (fired, steps_in_window, violations).  k = None: fault-free run (gives the number of points).  Returns
    (executions, points, violations list of ((key, detail), k))."""
    fired, steps, vs0 = execute(None)
    out = [((kd), None) for kd in vs0]
    n = 1
    ks = list(range(0, min(steps, limit) + 1))
    for k, (fired, _, vs) in common.pmap(_one, [(execute, k) for k in ks], chunksize=4):
        n += 1
        for kd in vs:
            out.append((kd, k))
    return n, len(ks), out
