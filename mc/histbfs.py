"""E3: explicit-state breadth-first search over environment event histories.

A state is represented by the event history that reaches it.  Expanding a state replays the
history on a fresh world (live objects cannot be copied), applies one more event from a
finite alphabet and runs the real node to quiescence under the default schedule - one
environment event = one atomic transition.  After every transition the monitors run and a
canonical key is computed; unseen keys join the next frontier.  Level-synchronous; the
frontier is spread over the worker pool.  See DESIGN.md 2.2.
"""
from __future__ import annotations

import time

from . import common


class Model:
    """Interface a check implements (must be picklable: defined at module top level)."""
    name = "model"

    def alphabet(self):
        """Finite list of events, simplest first."""
        raise NotImplementedError

    def build(self, history):
        """Replay history on a fresh world.  Returns (key, violations, info) or None if the last
        event is not enabled in the state reached by the prefix.  violations: list of (key, detail)."""
        raise NotImplementedError

    def deviation(self, event):
        """Cost of an event for deviation bounding (0 = default environment answer)."""
        return 0


def _expand(args):
    model, hist, dedup = args
    out = []
    n = 0
    for ev in model.alphabet():
        h = hist + (ev,)
        r = model.build(h)
        if r is None:
            continue
        n += 1
        key, vs, info = r
        out.append((h, key if dedup else None, vs, info))
    return n, out


def search(model, max_depth, max_deviations=None, dedup=True, time_cap=None, state_cap=None):
    """Returns a stats dict.  With dedup=False every history is kept (plain tree search)."""
    t0 = time.time()
    r0 = model.build(())
    if r0 is None:
        raise RuntimeError("initial state cannot be built")
    key0, vs0, info0 = r0
    seen = {key0} if dedup else set()
    frontier = [()]
    stats = {"states": 1, "transitions": 0, "max_depth": 0, "levels": [1], "violations": [], "completed_depth": 0,
             "caps_hit": [], "samples": [], "outcomes": set()}
    for v in vs0:
        stats["violations"].append((v, ()))
    for depth in range(1, max_depth + 1):
        if not frontier:
            break
        jobs = [(model, h, dedup) for h in frontier]
        nxt = []
        capped = False
        for n, children in common.pimap(_expand, jobs, chunksize=max(1, min(8, len(jobs) // (common.NPROC * 4) or 1))):
            stats["transitions"] += n
            for h, key, vs, info in children:
                for v in vs:
                    if len(stats["violations"]) < 400:
                        stats["violations"].append((v, h))
                if info is not None:
                    stats["outcomes"].add(info)
                if max_deviations is not None and sum(model.deviation(e) for e in h) > max_deviations:
                    continue
                if isinstance(key, tuple) and key and key[0] == "livelock":
                    continue        # reported; a node that never becomes quiescent has no successors
                if dedup:
                    if key in seen:
                        continue
                    seen.add(key)
                nxt.append(h)
            if time_cap and time.time() - t0 > time_cap:
                capped = True
        stats["states"] += len(nxt)
        stats["levels"].append(len(nxt))
        if nxt:
            stats["max_depth"] = depth
            if len(stats["samples"]) < 6:
                stats["samples"].append(list(map(str, nxt[len(nxt) // 2])))
        if capped:
            stats["caps_hit"].append(f"time cap {time_cap}s reached while expanding depth {depth}")
            # the level was still expanded completely (the cap is only tested between levels)
        stats["completed_depth"] = depth
        frontier = nxt
        if capped:
            break
        if state_cap and stats["states"] > state_cap:
            stats["caps_hit"].append(f"state cap {state_cap} exceeded after depth {depth}")
            break
    stats["outcomes"] = len(stats["outcomes"])
    stats["wall"] = round(time.time() - t0, 2)
    return stats
