"""Trace monitors (oracles) for node properties and the generic scenario model.

Monitors consume the world's observation log (frames read/written per fake socket with
virtual timestamps, connect()/close() calls, handler invocations) and the environment's own
ground truth kept by `Scenario`.  They never use the node's bookkeeping as truth; public
attributes named in a property's observe_at are read where the property is about them.
"""
from __future__ import annotations

from . import env, histbfs, refcodec as rc, scenario, simkernel as sk

R = 0x80
CMD_NAMES = {257: "CE", 280: "DW", 282: "DP", 271: "AC", 272: "CC"}


def cname(code):
    return CMD_NAMES.get(code, str(code))


class Monitor:
    def __init__(self, sc):
        self.sc = sc
        self.pos = 0

    def new_records(self):
        log = self.sc.nw.world.log
        recs = log[self.pos:]
        self.pos = len(log)
        return recs

    def step(self):
        return []

    def state(self):
        return ()


class WireTracker(Monitor):
    """Splits the per-socket byte streams of both directions into frames, in log order.

    Yields events ("in", t, sid, Frame) for frames the environment delivered and
    ("out", t, sid, Frame) for frames the node wrote, plus the other log records unchanged.
    """

    def __init__(self, sc):
        super().__init__(sc)
        self.outbuf = {}

    def events(self):
        out = []
        for rec in self.new_records():
            t, kind = rec[0], rec[1]
            if kind == "env_deliver":
                sid, data = rec[2], rec[3]
                try:
                    raws, rest = rc.split_frames(data)
                except rc.RefError:
                    raws, rest = [], b""
                for r in raws:
                    try:
                        out.append(("in", t, sid, rc.Frame(r)))
                    except rc.RefError:
                        out.append(("in-undecodable", t, sid, r))
            elif kind == "send":
                sid, chunk = rec[2], rec[3]
                buf = self.outbuf.get(sid, b"") + chunk
                try:
                    raws, rest = rc.split_frames(buf)
                except rc.RefError as e:
                    out.append(("out-garbage", t, sid, str(e)))
                    raws, rest = [], b""
                self.outbuf[sid] = rest
                for r in raws:
                    try:
                        out.append(("out", t, sid, rc.Frame(r)))
                    except rc.RefError as e:
                        out.append(("out-garbage", t, sid, str(e)))
            else:
                out.append(rec[1:2] + (t,) + rec[2:])
        return out


class AnswerMonitor(WireTracker):
    """C07: every answer the node transmits answers exactly one pending request of that socket."""

    def __init__(self, sc):
        super().__init__(sc)
        self.pending = {}       # sid -> list of ident tuples (multiset, in arrival order)
        self.answered = {}      # sid -> set of idents already answered
        self.got_answers = {}   # sid -> set of idents of answers received from the environment
        self.last_in = {}       # sid -> last inbound frame (to attribute a reaction)

    def step(self):
        vs = []
        for ev in self.events():
            if ev[0] == "in":
                _, t, sid, f = ev
                self.last_in[sid] = f
                if f.h.is_request:
                    self.pending.setdefault(sid, []).append(f.h.ident())
                else:
                    self.got_answers.setdefault(sid, set()).add(f.h.ident())
            elif ev[0] == "out":
                _, t, sid, f = ev
                if f.h.is_request:
                    continue
                ident = f.h.ident()
                pend = self.pending.setdefault(sid, [])
                if ident in pend:
                    pend.remove(ident)
                    self.answered.setdefault(sid, set()).add(ident)
                    continue
                cmd = cname(f.h.code)
                rcode = f.result_code
                if ident in self.answered.get(sid, ()):
                    vs.append((f"answer:second-answer-for-one-request:{cmd}:rc={rcode}",
                               f"socket {sid}: {f!r} answers a request that was already answered"))
                elif ident in self.got_answers.get(sid, ()):
                    vs.append((f"answer:sent-in-reaction-to-a-received-answer:{cmd}:rc={rcode}",
                               f"socket {sid}: {f!r} mirrors the identifiers of an answer received from the peer"))
                else:
                    other = [s for s, p in self.pending.items() if ident in p and s != sid]
                    where = "pending-on-another-connection" if other else "no-such-request"
                    vs.append((f"answer:without-pending-request:{where}:{cmd}:rc={rcode}",
                               f"socket {sid}: {f!r}; pending there: {pend[:4]}; last inbound {self.last_in.get(sid)!r}"))
            elif ev[0] == "out-garbage":
                vs.append(("answer:node-wrote-unframeable-bytes", f"socket {ev[2]}: {ev[3]}"))
        return vs

    def state(self):
        return (tuple(sorted((s, tuple(sorted(p))) for s, p in self.pending.items() if p)),
                tuple(sorted((s, tuple(sorted(p))) for s, p in self.answered.items() if p)))


class ScenarioModel(histbfs.Model):
    """Generic E3 model: config + alphabet + monitor classes + scenario options."""

    def __init__(self, name, cfg, alphabet, monitor_classes, max_socks=2, start_plan=None, deviations=None,
                 extra_key=None, app_timeout=2, prelude=()):
        self.name = name
        self.cfg = cfg
        self._alphabet = list(alphabet)
        self.monitor_classes = list(monitor_classes)
        self.max_socks = max_socks
        self.start_plan = start_plan
        self.deviations = deviations or {}
        self.app_timeout = app_timeout
        self.prelude = tuple(prelude)       # events applied before the explored history (not branched on)

    def alphabet(self):
        return self._alphabet

    def deviation(self, ev):
        return self.deviations.get(ev[0], 0) if not isinstance(self.deviations.get(ev), int) else self.deviations[ev]

    def build(self, history, want_world=False):
        sc = scenario.Scenario(self.cfg, max_socks=self.max_socks, start_plan=self.start_plan, app_timeout=self.app_timeout)
        try:
            sc.start()
            mons = [m(sc) for m in self.monitor_classes]
            vs = []
            for m in mons:
                vs += m.step()
            for ev in self.prelude:
                if not sc.apply(ev):
                    raise sk.HarnessError(f"prelude event {ev} not enabled")
                for m in mons:
                    vs += m.step()
            n = len(history)
            for i, ev in enumerate(history):
                if not sc.apply(ev):
                    if i == n - 1:
                        return None
                    raise sk.HarnessError(f"replay divergence: event {ev} at {i} of {history} no longer enabled")
                for m in mons:
                    vs += m.step()
            key = (sc.key(), tuple(m.state() for m in mons))
            info = None
            return key, vs, info
        finally:
            sc.close()


def run_models(rep, models, depth, dedup_depth_plain=None, max_deviations=None, time_cap=None):
    """Run BFS for each model; fill the report.  Returns total stats."""
    from .common import Violation
    tot = {"states": 0, "transitions": 0, "max_depth": 0, "plain_states": 0, "plain_transitions": 0}
    for model in models:
        st = histbfs.search(model, depth, max_deviations=max_deviations, dedup=True, time_cap=time_cap)
        tot["states"] += st["states"]
        tot["transitions"] += st["transitions"]
        tot["max_depth"] = max(tot["max_depth"], st["max_depth"])
        for (key, detail), hist in st["violations"]:
            rep.add(Violation(key, f"[{model.name}] history {list(hist)}: {detail}", {"model": model.name, "history": [list(e) for e in hist]}))
        rep.sample({"model": model.name, "depth_completed": st["completed_depth"], "states": st["states"], "transitions": st["transitions"],
                    "levels": st["levels"], "caps_hit": st["caps_hit"], "sample_history": st["samples"][-1] if st["samples"] else []}, 12)
        if st["caps_hit"]:
            rep.notes.append(f"{model.name}: {st['caps_hit']}")
        if dedup_depth_plain:
            sp = histbfs.search(model, dedup_depth_plain, max_deviations=max_deviations, dedup=False, time_cap=time_cap)
            tot["plain_states"] += sp["states"]
            tot["plain_transitions"] += sp["transitions"]
            keys_d = {k for (k, d), h in st["violations"]}
            keys_p = {k for (k, d), h in sp["violations"]}
            for (key, detail), hist in sp["violations"]:
                rep.add(Violation(key, f"[{model.name}, no dedup] history {list(hist)}: {detail}", {"model": model.name, "history": [list(e) for e in hist]}))
            if keys_p - keys_d:
                rep.notes.append(f"{model.name}: the search without deduplication found {sorted(keys_p - keys_d)} that the deduplicated one missed")
    return tot
