"""Trace monitors (oracles) for node properties and the generic scenario model.

Monitors consume the world's observation log (frames read/written per fake socket with
virtual timestamps, connect()/close() calls, handler invocations) and the environment's own
ground truth kept by `Scenario`.  They never use the node's bookkeeping as truth; public
attributes named in a property's observe_at are read where the property is about them.
"""
from __future__ import annotations

from . import env, histbfs, refcodec as rc, scenario, simkernel as sk

R = 0x80
CMD_NAMES = {257: "CE", 280: "DW", 282: "DP", 271: "AC", 272: "CC"}


def cname(code):
    return CMD_NAMES.get(code, str(code))


class Monitor:
    def __init__(self, sc):
        self.sc = sc
        self.pos = 0

    def new_records(self):
        log = self.sc.nw.world.log
        recs = log[self.pos:]
        self.pos = len(log)
        return recs

    def step(self):
        return []

    def state(self):
        return ()


class WireTracker(Monitor):
    """Splits the per-socket byte streams of both directions into frames, in log order.

    Yields events ("in", t, sid, Frame) for frames the environment delivered and
    ("out", t, sid, Frame) for frames the node wrote, plus the other log records unchanged.
    """

    def __init__(self, sc):
        super().__init__(sc)
        self.outbuf = {}
        self.inbuf = {}

    def events(self):
        out = []
        for rec in self.new_records():
            t, kind = rec[0], rec[1]
            if kind == "env_deliver":
                sid, data = rec[2], rec[3]
                out.append(("bytes", t, sid, len(data)))
                data = self.inbuf.pop(sid, b"") + data
                try:
                    raws, rest = rc.split_frames(data)
                except rc.RefError:
                    raws, rest = [], b""
                if rest:
                    self.inbuf[sid] = rest
                for r in raws:
                    try:
                        out.append(("in", t, sid, rc.Frame(r)))
                    except rc.RefError:
                        out.append(("in-undecodable", t, sid, r))
            elif kind == "send":
                sid, chunk = rec[2], rec[3]
                buf = self.outbuf.get(sid, b"") + chunk
                try:
                    raws, rest = rc.split_frames(buf)
                except rc.RefError as e:
                    out.append(("out-garbage", t, sid, str(e)))
                    raws, rest = [], b""
                self.outbuf[sid] = rest
                for r in raws:
                    try:
                        out.append(("out", t, sid, rc.Frame(r)))
                    except rc.RefError as e:
                        out.append(("out-garbage", t, sid, str(e)))
            else:
                out.append(rec[1:2] + (t,) + rec[2:])
        return out


class AnswerMonitor(WireTracker):
    """C07: every answer the node transmits answers exactly one pending request of that socket."""

    def __init__(self, sc):
        super().__init__(sc)
        self.pending = {}       # sid -> list of ident tuples (multiset, in arrival order)
        self.answered = {}      # sid -> set of idents already answered
        self.got_answers = {}   # sid -> set of idents of answers received from the environment
        self.last_in = {}       # sid -> last inbound frame (to attribute a reaction)

    def step(self):
        vs = []
        for ev in self.events():
            if ev[0] == "in":
                _, t, sid, f = ev
                self.last_in[sid] = f
                if f.h.is_request:
                    self.pending.setdefault(sid, []).append(f.h.ident())
                else:
                    self.got_answers.setdefault(sid, set()).add(f.h.ident())
            elif ev[0] == "out":
                _, t, sid, f = ev
                if f.h.is_request:
                    # the node's own requests draw their identifiers from its own generators; a frame that mirrors command code,
                    # application id and both identifiers of a request pending on this socket is that request's answer with the
                    # request bit left set (answers to untyped commands carry no Result-Code, so its presence is not required)
                    if f.h.ident() in self.pending.get(sid, ()):
                        vs.append((f"answer:request-bit-not-cleared:{cname(f.h.code)}:rc={f.result_code}",
                                   f"socket {sid}: {f!r} mirrors a pending request but has the R bit set"))
                    continue
                ident = f.h.ident()
                pend = self.pending.setdefault(sid, [])
                if ident in pend:
                    pend.remove(ident)
                    self.answered.setdefault(sid, set()).add(ident)
                    continue
                cmd = cname(f.h.code)
                rcode = f.result_code
                if ident in self.answered.get(sid, ()):
                    vs.append((f"answer:second-answer-for-one-request:{cmd}:rc={rcode}",
                               f"socket {sid}: {f!r} answers a request that was already answered"))
                elif ident in self.got_answers.get(sid, ()):
                    vs.append((f"answer:sent-in-reaction-to-a-received-answer:{cmd}:rc={rcode}",
                               f"socket {sid}: {f!r} mirrors the identifiers of an answer received from the peer"))
                else:
                    other = [s for s, p in self.pending.items() if ident in p and s != sid]
                    where = "pending-on-another-connection" if other else "no-such-request"
                    vs.append((f"answer:without-pending-request:{where}:{cmd}:rc={rcode}",
                               f"socket {sid}: {f!r}; pending there: {pend[:4]}; last inbound {self.last_in.get(sid)!r}"))
            elif ev[0] == "out-garbage":
                vs.append(("answer:node-wrote-unframeable-bytes", f"socket {ev[2]}: {ev[3]}"))
        return vs

    def state(self):
        return (tuple(sorted((s, tuple(sorted(p))) for s, p in self.pending.items() if p)),
                tuple(sorted((s, tuple(sorted(p))) for s, p in self.answered.items() if p)))


class ScenarioModel(histbfs.Model):
    """Generic E3 model: config + alphabet + monitor classes + scenario options."""

    def __init__(self, name, cfg, alphabet, monitor_classes, max_socks=2, start_plan=None, deviations=None,
                 extra_key=None, app_timeout=2, prelude=()):
        self.name = name
        self.cfg = cfg
        self._alphabet = list(alphabet)
        self.monitor_classes = list(monitor_classes)
        self.max_socks = max_socks
        self.start_plan = start_plan
        self.deviations = deviations or {}
        self.app_timeout = app_timeout
        self.prelude = tuple(prelude)       # events applied before the explored history (not branched on)
        self.policy = None                  # thread kind that runs last (simkernel.World.low_kind); None = lowest id first
        # key_time: the elapsed virtual time is part of the state key.  The canonical key caps ages at the largest configured timeout
        # (DESIGN 2.2); bookkeeping that ages on a scale of its own (statistics slots, 1000 s) is not in it, so models that let such
        # spans pass keep states apart by time - an over-fine key only costs executions
        self.key_time = False

    def alphabet(self):
        return self._alphabet

    def deviation(self, ev):
        return self.deviations.get(ev[0], 0) if not isinstance(self.deviations.get(ev), int) else self.deviations[ev]

    def build(self, history, want_log=False):
        sc = scenario.Scenario(self.cfg, max_socks=self.max_socks, start_plan=self.start_plan, app_timeout=self.app_timeout)
        try:
            sc.start()
            sc.nw.world.low_kind = self.policy
            mons = [m(sc) for m in self.monitor_classes]
            vs = []
            for m in mons:
                vs += m.step()
            for ev in self.prelude:
                if not sc.apply(ev):
                    raise sk.HarnessError(f"prelude event {ev} not enabled")
                for m in mons:
                    vs += m.step()
            n = len(history)
            for i, ev in enumerate(history):
                if not sc.apply(ev):
                    if i == n - 1:
                        return None
                    raise sk.HarnessError(f"replay divergence: event {ev} at {i} of {history} no longer enabled")
                for m in mons:
                    vs += m.step()
            key = (sc.key(), tuple(m.state() for m in mons))
            if self.key_time:
                key += (int(sc.nw.world.now),)
            info = None
            if want_log:
                return key, vs, info, [repr(r) for r in sc.nw.world.log]
            return key, vs, info
        except sk.Livelock as e:
            # the node's threads keep each other busy forever at one instant: no property of a live node holds
            return ("livelock", tuple(history)), [("livelock:node-threads-never-reach-quiescence", f"{e}")], None
        finally:
            sc.close()


def with_io_last(models):
    """The models plus a copy of each that runs under the kernel's second deterministic scheduling policy: the node's I/O
    thread gets the CPU only when no other thread is runnable, so that wake-ups, received segments and queued output pile
    up for it instead of being consumed one at a time."""
    import copy as _copy
    out = list(models)
    for m in models:
        c = _copy.copy(m)
        c.name = m.name + "/io-thread-last"
        c.policy = "_handle_connections"
        out.append(c)
    return out


def with_sctp(models, only=None):
    """The models plus a copy of each (or of those whose name is in `only`) in which the node listens on SCTP and every
    configured peer is an SCTP peer: the node's SCTP branches (listen / accept / dial with connectx / sctp_send / close without
    SO_LINGER) are separate code from the TCP ones and are judged by the same monitors on the fake `sctp` module."""
    import copy as _copy
    out = list(models)
    for m in models:
        if only is not None and m.name not in only:
            continue
        c = _copy.copy(m)
        c.name = m.name + "/sctp"
        c.cfg = _copy.deepcopy(m.cfg)
        c.cfg.setdefault("node", {})["transport"] = "sctp"
        out.append(c)
    return out


def sctp_copies(models, only=None):
    """Only the SCTP copies (see with_sctp) - run as a pass of their own so that they do not eat into the time budget of the others."""
    return with_sctp(models, only)[len(models):]


def merge_tot(tot, t2):
    for k in tot:
        tot[k] = max(tot[k], t2[k]) if k == "max_depth" else tot[k] + t2[k]
    return tot


def determinism_selftest(model):
    """Execute one non-trivial history of the model twice in fresh worlds and require identical keys, violations and
    observation logs.  Any difference means the harness does not own all nondeterminism: abort (exit 2), never a verdict."""
    hist = []
    for ev in model.alphabet():
        if len(hist) >= 4:
            break
        if model.build(tuple(hist) + (ev,)) is not None:
            hist.append(ev)
    a = model.build(tuple(hist), want_log=True)
    b = model.build(tuple(hist), want_log=True)
    if a is None or b is None or a[0] != b[0] or a[1] != b[1] or a[3] != b[3]:
        raise sk.HarnessError(f"determinism self-test failed for model {model.name}: the same history {hist} gave two different observations")
    return len(a[3])


def run_models(rep, models, depth, dedup_depth_plain=None, max_deviations=None, time_cap=None):
    """Run BFS for each model; fill the report.  Returns total stats."""
    from .common import Violation
    if models:
        n = determinism_selftest(models[0])
        rep.cov["determinism_selftest"] = f"history of model {models[0].name} executed twice: identical key, verdicts and {n} log records"
    tot = {"states": 0, "transitions": 0, "max_depth": 0, "plain_states": 0, "plain_transitions": 0}
    import time as _t
    t_start = _t.time()
    for mi, model in enumerate(models):
        # time_cap is a budget for the whole call: each model gets an equal share of what is left (a level that has been
        # started is always finished, so the budget is soft); caps that bite are recorded in the evidence
        cap_total = time_cap
        if cap_total:
            left = max(5.0, cap_total - (_t.time() - t_start))
            time_cap_model = left / (len(models) - mi)
        else:
            time_cap_model = None
        st = histbfs.search(model, depth, max_deviations=max_deviations, dedup=True, time_cap=time_cap_model)
        tot["states"] += st["states"]
        tot["transitions"] += st["transitions"]
        tot["max_depth"] = max(tot["max_depth"], st["max_depth"])
        for (key, detail), hist in st["violations"]:
            rep.add(Violation(key, f"[{model.name}] history {list(hist)}: {detail}", {"model": model.name, "history": [list(e) for e in hist]}))
        rep.sample({"model": model.name, "depth_completed": st["completed_depth"], "states": st["states"], "transitions": st["transitions"],
                    "levels": st["levels"], "caps_hit": st["caps_hit"], "sample_history": st["samples"][-1] if st["samples"] else []}, 12)
        if st["caps_hit"]:
            rep.notes.append(f"{model.name}: {st['caps_hit']}")
        if dedup_depth_plain:
            sp = histbfs.search(model, dedup_depth_plain, max_deviations=max_deviations, dedup=False, time_cap=time_cap_model)
            tot["plain_states"] += sp["states"]
            tot["plain_transitions"] += sp["transitions"]
            keys_d = {k for (k, d), h in st["violations"]}
            keys_p = {k for (k, d), h in sp["violations"]}
            for (key, detail), hist in sp["violations"]:
                rep.add(Violation(key, f"[{model.name}, no dedup] history {list(hist)}: {detail}", {"model": model.name, "history": [list(e) for e in hist]}))
            if keys_p - keys_d:
                rep.notes.append(f"{model.name}: the search without deduplication found {sorted(keys_p - keys_d)} that the deduplicated one missed")
    return tot


PEER_READY = 0x12
PEER_READY_STATES = (0x12, 0x13)


class GateMonitor(WireTracker):
    """C06: nothing but the expected CE message is processed before CE success; CE outcomes; CE timeouts."""

    def __init__(self, sc):
        super().__init__(sc)
        self.st = {}        # sid -> dict
        self.req_sock = {}  # (hbh, e2e) -> sid of env-sent requests

    def sockstate(self, sid):
        if sid not in self.st:
            self.st[sid] = {"t0": None, "ce_in": None, "ce_ok": False, "cea_seen": False, "traffic": False, "closed_at": None,
                            "env_closed": False, "first_out": None, "must_close": False, "never_ready": False}
        return self.st[sid]

    def eff_timeout(self, s, kind_key):
        cfg = self.sc.cfg
        t = cfg.get("node", {}).get(kind_key, 4)
        host = s.host
        if s.kind == "dialled" or (s.cer_variant is not None and s.cer_variant != "unknown"):
            for pc in cfg.get("peers", []):
                if pc["name"] == host and pc.get(kind_key):
                    t = pc[kind_key]
        return t

    def step(self):
        sc = self.sc
        nw = sc.nw
        node = nw.node
        vs = []
        socks = {s.fs.sid: s for s in sc.socks}
        stopping = getattr(node, "_stopping", False)
        for ev in self.events():
            k = ev[0]
            if k == "env_accept":
                self.sockstate(ev[2])["t0"] = ev[1]
            elif k == "connect":
                t, sid, addr, plan = ev[1], ev[2], ev[3], ev[4]
                if plan == "ok":
                    self.sockstate(sid)["t0"] = t
            elif k == "env_resolve":
                if ev[3]:
                    self.sockstate(ev[2])["t0"] = ev[1]
            elif k in ("env_eof", "env_reset"):
                self.sockstate(ev[2])["env_closed"] = True
            elif k == "close":
                st = self.sockstate(ev[2])
                st["closed_at"] = ev[1]
                s = socks.get(ev[2])
                if s is not None and st["t0"] is not None and not st["ce_in"] and not st["env_closed"] and not stopping:
                    key = "cea_timeout" if s.kind == "dialled" else "cer_timeout"
                    if ev[1] - st["t0"] <= self.eff_timeout(s, key):
                        vs.append((f"ce-timeout:{s.kind}:closed-before-the-deadline",
                                   f"socket {ev[2]} established at {st['t0']} closed by the node at {ev[1]} with timeout {self.eff_timeout(s, key)} and no CE message received"))
            elif k == "in":
                t, sid, f = ev[1], ev[2], ev[3]
                st = self.sockstate(sid)
                s = socks.get(sid)
                if f.h.is_request:
                    self.req_sock[(f.h.hbh, f.h.e2e)] = sid
                if s is None:
                    continue
                if f.h.code == 257 and f.h.is_request and s.kind == "accepted" and st["ce_in"] is None:
                    st["ce_in"] = (s.cer_variant, f.h.ident(), t)
                    # the node may serve what follows an acceptable CER in the same segment before its CEA is flushed
                    st["ce_accepted"] = self.acceptable(s.cer_variant)
                elif f.h.code == 257 and not f.h.is_request and s.kind == "dialled" and st["ce_in"] is None and s.cea_variant is not None:
                    st["ce_in"] = (s.cea_variant, f.h.ident(), t)
                    if s.cea_variant in ("ok", "okcase"):
                        st["ce_ok"] = True
                else:
                    st["traffic"] = True
            elif k == "out":
                t, sid, f = ev[1], ev[2], ev[3]
                st = self.sockstate(sid)
                s = socks.get(sid)
                if s is None:
                    continue
                if st["first_out"] is None:
                    st["first_out"] = f
                    if s.kind == "dialled" and not (f.h.is_request and f.h.code == 257):
                        vs.append(("gate:outbound:first-frame-is-not-a-CER", f"socket {sid}: {f!r}"))
                if st["ce_ok"]:
                    continue
                if s.kind == "accepted":
                    ce = st["ce_in"]
                    if ce is not None and not f.h.is_request and f.h.code == 257 and f.h.ident() == ce[1] and not st["cea_seen"]:
                        st["cea_seen"] = True
                        vs += self.judge_cea(s, st, ce[0], f)
                    else:
                        what = "request" if f.h.is_request else "answer"
                        vs.append((f"gate:inbound:frame-sent-before-CE-success:{what}:{cname(f.h.code)}:rc={f.result_code}",
                                   f"socket {sid} (CER {ce[0] if ce else None}): node wrote {f!r}"))
                else:
                    if not (f.h.is_request and f.h.code == 257 and f is st["first_out"]):
                        what = "request" if f.h.is_request else "answer"
                        vs.append((f"gate:outbound:frame-sent-before-CE-success:{what}:{cname(f.h.code)}:rc={f.result_code}",
                                   f"socket {sid} (CEA {st['ce_in'][0] if st['ce_in'] else None}): node wrote {f!r}"))
                    elif f.get(264) != node.origin_host.encode() or f.get(296) != node.realm_name.encode():
                        vs.append(("gate:outbound:CER-without-node-identity", f"socket {sid}: {f!r}"))
            elif k in ("handle_request", "handle_answer"):
                t, app_i, hbh, e2e = ev[1], ev[2], ev[3], ev[4]
                sid = self.req_sock.get((hbh, e2e))
                if k == "handle_request" and sid is not None and not self.sockstate(sid)["ce_ok"] and not self.sockstate(sid).get("ce_accepted"):
                    s = socks.get(sid)
                    ce = self.sockstate(sid)["ce_in"]
                    vs.append((f"gate:{s.kind if s else '?'}:request-shown-to-application-before-CE-success:CE={ce[0] if ce else None}",
                               f"socket {sid}: request hbh={hbh:#x} delivered to application {app_i}"))
            elif k == "timer_check":
                t, sid, state = ev[1], ev[2], ev[3]
                s = socks.get(sid)
                st = self.sockstate(sid)
                if s is None or st["t0"] is None or stopping:
                    continue
                key = "cea_timeout" if s.kind == "dialled" else "cer_timeout"
                arrived = st["ce_in"] is not None and st["ce_in"][2] <= t
                if not arrived and not st["env_closed"] and t - st["t0"] > self.eff_timeout(s, key):
                    st["must_close"] = (t, self.eff_timeout(s, key))
        # quiescent-state obligations
        for sid, st in self.st.items():
            s = socks.get(sid)
            if s is None:
                continue
            conn = nw.conn_of(s.fs)
            if st["must_close"] and not s.fs.closed and not st.get("reported_timeout"):
                st["reported_timeout"] = True
                how = "after-other-traffic" if st["traffic"] else "silent"
                vs.append((f"ce-timeout:{s.kind}:not-closed-at-the-first-timer-check-after-the-deadline:{how}",
                           f"socket {sid} established at {st['t0']}, timer check at {st['must_close'][0]} with timeout {st['must_close'][1]}, no CE message yet, still open"))
            # whatever the node's own timer checks did or did not do: it wakes up at least every wake-up interval, so a connection without
            # its CER/CEA must be gone one interval (+ 2 s of rounding slack) after the deadline
            if st["t0"] is not None and st["ce_in"] is None and not st["env_closed"] and not s.fs.closed and not stopping \
                    and not st.get("reported_timeout") and not (s.fs.connecting and not s.fs.conn_done):
                key = "cea_timeout" if s.kind == "dialled" else "cer_timeout"
                limit = self.eff_timeout(s, key) + getattr(node, "wakeup_interval", 6) + 2
                if nw.world.now - st["t0"] > limit:
                    st["reported_timeout"] = True
                    how = "after-other-traffic" if st["traffic"] else "silent"
                    vs.append((f"ce-timeout:{s.kind}:still-open-a-wake-up-interval-after-the-deadline:{how}",
                               f"socket {sid} established at {st['t0']}, now {nw.world.now}, timeout {self.eff_timeout(s, key)}, wake-up interval {getattr(node, 'wakeup_interval', 6)}"))
            ready = conn is not None and conn.state in PEER_READY_STATES
            if ready and not st["ce_ok"] and not st.get("reported_ready"):
                st["reported_ready"] = True
                ce = st["ce_in"]
                vs.append((f"gate:{s.kind}:connection-ready-without-CE-success:CE={ce[0] if ce else None}", f"socket {sid} state {conn.state:#x}"))
            if st["ce_ok"] and st.get("expect_ready_check"):
                st["expect_ready_check"] = False
                if not ready and not s.fs.closed and not st["env_closed"]:
                    vs.append((f"gate:{s.kind}:not-ready-after-successful-CE", f"socket {sid}: state {conn.state if conn else None}"))
            if s.kind == "dialled" and st["ce_ok"] and not st.get("ready_checked"):
                st["ready_checked"] = True
                if not ready and not s.fs.closed and not st["env_closed"]:
                    vs.append(("gate:outbound:not-ready-after-CEA-2001", f"socket {sid}: state {conn.state if conn else None}"))
            if s.kind == "accepted" and st["ce_in"] is not None and not st["cea_seen"] and not st.get("cea_absence_reported") \
                    and not st["env_closed"] and not s.fs.send_blocked and not stopping \
                    and st["t0"] is not None and st["ce_in"][2] - st["t0"] <= self.eff_timeout(s, "cer_timeout"):
                # (a CER arriving after its deadline, but before the node noticed, may be answered or may find the connection closed)
                # "an inbound CER is answered by a CEA": owed at the first quiescent point after the CER was delivered
                st["cea_absence_reported"] = True
                vs.append((f"gate:inbound:CER-not-answered-by-a-CEA:{st['ce_in'][0]}", f"socket {sid}: CER ({st['ce_in'][0]}) delivered at {st['ce_in'][2]}, "
                           f"no CEA written at quiescence; socket closed={s.fs.closed}, state {conn.state if conn else None}"))
            if st.get("expect_closed") and not st.get("closed_checked"):
                st["closed_checked"] = True
                if not s.fs.closed:
                    vs.append((f"gate:{s.kind}:connection-not-closed-after-{st['expect_closed']}", f"socket {sid} still open"))
            if s.kind == "dialled" and st["ce_in"] and st["ce_in"][0] in ("3xxx", "5xxx", "norc") and not st.get("closed_checked"):
                st["closed_checked"] = True
                if not s.fs.closed:
                    vs.append((f"gate:outbound:connection-not-closed-after-CEA-{st['ce_in'][0]}", f"socket {sid} still open"))
        return vs

    def acceptable(self, variant):
        if variant == "relay":
            return True
        if variant == "vsa":
            return bool(self.sc.cfg.get("apps"))
        if variant == "vsa_acct":
            return any(a.get("acct") for a in self.sc.cfg.get("apps", []))
        if variant and variant.startswith("v6p"):
            return bool(self.sc.cfg.get("apps"))
        if variant == "onlyacct":
            return any(a.get("acct") for a in self.sc.cfg.get("apps", []))
        if variant == "onlyauth":
            return any(a.get("auth") for a in self.sc.cfg.get("apps", []))
        return bool(variant) and variant.startswith("p") and bool(self.sc.cfg.get("apps"))

    def judge_cea(self, s, st, variant, f):
        node = self.sc.nw.node
        vs = []
        rcode = f.result_code
        if (variant.startswith("p") or variant.startswith("v6p") or variant == "vsa") and not self.sc.cfg.get("apps"):
            variant = "nocommon"
        if variant in ("vsa_acct", "onlyacct", "onlyauth") and not self.acceptable(variant):
            variant = "nocommon"
        if variant == "vsa_cross":
            variant = "crosskind"        # a node without applications shares nothing with a non-relay peer
        if variant == "unknown":
            if rcode != 3010:
                vs.append((f"ce-outcome:unknown-peer:answered-{rcode}-instead-of-3010", f"{f!r}"))
            st["expect_closed"] = "3010"
            return vs
        if variant in ("nocommon", "crosskind"):
            if rcode != 5010:
                vs.append((f"ce-outcome:no-common-application:answered-{rcode}-instead-of-5010", f"{f!r}"))
            return vs
        if variant == "nohost":
            if rcode == 2001:
                vs.append(("ce-outcome:CER-without-origin-host-answered-2001", f"{f!r}"))
            return vs
        if variant == "badip":
            return vs           # outcome not specified; the gate and the answer monitor still apply
        # known peer sharing an application, or a relay
        if rcode != 2001:
            vs.append((f"ce-outcome:acceptable-CER-({variant}):answered-{rcode}-instead-of-2001", f"{f!r}"))
            return vs
        st["ce_ok"] = True
        st["expect_ready_check"] = True
        want_ips = list(node.ip_addresses)
        got_ips = []
        for p in f.getall(257):
            try:
                got_ips.append(str(rc.dec_address(p)[1]))
            except rc.RefError:
                got_ips.append(p.hex())
        auth = sorted(int.from_bytes(p, "big") for p in f.getall(258))
        acct = sorted(int.from_bytes(p, "big") for p in f.getall(259))
        want_auth = sorted(a["id"] for a in self.sc.cfg.get("apps", []) if a.get("auth"))
        want_acct = sorted(a["id"] for a in self.sc.cfg.get("apps", []) if a.get("acct"))
        problems = []
        if f.get(264) != node.origin_host.encode():
            problems.append("origin-host")
        if f.get(296) != node.realm_name.encode():
            problems.append("origin-realm")
        if sorted(got_ips) != sorted(want_ips):
            problems.append("host-ip-address")
        if f.u32(266) != node.vendor_id:
            problems.append("vendor-id")
        if f.get(269) != node.product_name.encode():
            problems.append("product-name")
        if sorted(set(auth)) != want_auth or sorted(set(acct)) != want_acct:
            problems.append("application-ids")
        if problems:
            vs.append((f"ce-outcome:CEA-2001-lacks-node-identity:{'+'.join(problems)}", f"{f!r}: ips {got_ips} auth {auth} acct {acct}"))
        return vs

    def state(self):
        now = self.sc.nw.world.now
        cfg = self.sc.cfg
        cap = max([cfg.get("node", {}).get(k, 4) for k in ("cer_timeout", "cea_timeout")] +
                  [pc.get(k) or 0 for pc in cfg.get("peers", []) for k in ("cer_timeout", "cea_timeout")]) + 2
        socks = {s.fs.sid: s for s in self.sc.socks}
        out = []
        for sid, st in self.st.items():
            s = socks.get(sid)
            pending = st["t0"] is not None and not st["ce_ok"] and s is not None and not s.fs.closed
            out.append((sid, st["ce_ok"], st["ce_in"][0] if st["ce_in"] else None, st["cea_seen"], st["traffic"],
                        bool(st["must_close"]), st["env_closed"], min(cap, int(now - st["t0"])) if pending else -1))
        return tuple(sorted(out))


class RouteMonitor(WireTracker):
    """C08: a request on a ready connection reaches exactly the matching application, else the specified error."""
    ACR_REQUIRED = (263, 264, 296, 283, 480, 485)

    def __init__(self, sc):
        super().__init__(sc)
        self.reqs = {}          # (sid, hbh, e2e) -> dict(expect=..., delivered=[], answered=[])
        self.ready = {}         # sid -> bool (CE success as seen by the environment)
        self.order = []

    def served_realms(self):
        cfg = self.sc.cfg
        realms = {cfg.get("node", {}).get("realm", env.NODE_REALM)}
        for a in cfg.get("apps", []):
            for pi in a.get("peers", []):
                realms.add(cfg["peers"][pi].get("realm", env.NODE_REALM))
                realms.update(a.get("realms", []))
        for pc in cfg.get("peers", []):
            if pc.get("default"):
                realms.add(pc.get("realm", env.NODE_REALM))
        return realms

    def expected(self, s, f):
        """Reference routing decision computed from the configuration only."""
        cfg = self.sc.cfg
        if f.h.code == 271 and any(f.get(c) is None for c in self.ACR_REQUIRED):
            return ("error", 5005)
        realm = f.get(283)
        if realm is None:
            return ("dontcare", None)
        realm = realm.decode()
        if realm not in self.served_realms():
            return ("error", 3003)
        peer_i = next((i for i, pc in enumerate(cfg["peers"]) if pc["name"] == s.host), None)
        for ai, a in enumerate(cfg.get("apps", [])):
            if a["id"] != f.h.app:
                continue
            # an application is configured per (realm, peer): a peer serves its own realm plus the application's additional realms
            if peer_i in a.get("peers", []) and realm in ({cfg["peers"][peer_i].get("realm", env.NODE_REALM)} | set(a.get("realms", []))):
                if a.get("behaviour") in ("raise", "raise_notroutable"):
                    return ("deliver+error", ai, 5012)
                return ("deliver", ai)
        return ("error", 3007)

    def step(self):
        sc = self.sc
        vs = []
        socks = {s.fs.sid: s for s in sc.socks}
        for ev in self.events():
            k = ev[0]
            if k == "in":
                t, sid, f = ev[1], ev[2], ev[3]
                s = socks.get(sid)
                if s is None or not f.h.is_request:
                    continue
                if f.h.code in (257, 280, 282):
                    self.reqs[(sid, f.h.hbh, f.h.e2e)] = {"expect": ("base",), "delivered": [], "answers": [], "f": f}
                    continue
                conn = sc.nw.conn_of(s.fs)
                ready = self.ready.get(sid, False)
                self.reqs[(sid, f.h.hbh, f.h.e2e)] = {"expect": self.expected(s, f) if ready else ("notready",), "delivered": [], "answers": [], "f": f}
                self.order.append((sid, f.h.hbh, f.h.e2e))
            elif k == "out":
                t, sid, f = ev[1], ev[2], ev[3]
                if not f.h.is_request and f.h.code == 257 and f.result_code == 2001:
                    self.ready[sid] = True
                if f.h.is_request and f.h.code == 282:
                    self.ready[sid] = False
                r = self.reqs.get((sid, f.h.hbh, f.h.e2e))
                if r is not None and not f.h.is_request:
                    r["answers"].append(f)
                    if f.h.code == 282:
                        self.ready[sid] = False       # DPA sent: the connection is leaving service
            elif k == "handle_request":
                t, app_i, hbh, e2e = ev[1], ev[2], ev[3], ev[4]
                hit = [key for key in self.reqs if key[1] == hbh and key[2] == e2e]
                for key in hit:
                    self.reqs[key]["delivered"].append(app_i)
                if not hit:
                    vs.append(("route:application-received-a-request-nobody-sent", f"hbh={hbh:#x} e2e={e2e:#x} app {app_i}"))
            elif k in ("env_eof", "env_reset", "close"):
                self.ready[ev[2]] = False
        # judge at quiescence every request not yet judged
        for key, r in self.reqs.items():
            if len(r["delivered"]) > 1 and not r.get("dup_reported"):
                r["dup_reported"] = True
                vs.append(("route:request-delivered-more-than-once", f"socket {key[0]} {r['f']!r}: delivered to {r['delivered']}"))
            if r.get("judged"):
                continue
            r["judged"] = True
            exp = r["expect"]
            f = r["f"]
            desc = f"socket {key[0]} {f!r} realm={f.get(283)}"
            if exp[0] == "base":
                if r["delivered"]:
                    vs.append((f"route:base-protocol-request-delivered-to-application:{cname(f.h.code)}", f"{desc}: delivered to {r['delivered']}"))
                continue
            if exp[0] in ("notready", "dontcare"):
                continue
            if exp[0] == "deliver":
                if r["delivered"] != [exp[1]]:
                    vs.append((f"route:matching-request-not-delivered-exactly-once-to-its-application:got={r['delivered']}:want=[{exp[1]}]",
                               f"{desc}: delivered to {r['delivered']}, answers {r['answers']}"))
                elif r["answers"] and sc.nw.apps[exp[1]].behaviour == "hold":
                    vs.append((f"route:node-answered-a-delivered-request-itself:rc={r['answers'][0].result_code}", f"{desc}: {r['answers']}"))
            elif exp[0] == "deliver+error":
                if r["delivered"] != [exp[1]] or len(r["answers"]) != 1 or r["answers"][0].result_code != exp[2]:
                    vs.append((f"route:handler-failure-not-answered-{exp[2]}", f"{desc}: delivered {r['delivered']} answers {r['answers']}"))
            else:
                want = exp[1]
                got = [a.result_code for a in r["answers"]]
                if r["delivered"]:
                    vs.append((f"route:request-that-must-be-rejected-({want})-reached-an-application", f"{desc}: delivered to {r['delivered']}"))
                if got != [want]:
                    vs.append((f"route:wrong-error-answer:want={want}:got={got}", f"{desc}: answers {r['answers']}"))
                elif want == 5005:
                    fa = r["answers"][0].getall(279)
                    missing = sorted((c, 0) for c in self.ACR_REQUIRED if f.get(c) is None)
                    listed = sorted((c, v) for p in fa for c, fl, v, pl in rc.dec_avps(p))
                    if listed != missing:
                        vs.append(("route:failed-avp-does-not-list-exactly-the-missing-avps", f"{desc}: listed {listed}, missing {missing}"))
        return vs

    def state(self):
        return (tuple(sorted(self.ready.items())), len(self.reqs))


class RetransMonitor(WireTracker):
    """C17: T-flagged repeats of already answered (origin, end-to-end) are rejected 5012; nothing else is."""

    def __init__(self, sc):
        super().__init__(sc)
        self.W = sc.cfg.get("node", {}).get("retransmit_queue_size", 10240)
        self.hist_all = {}      # origin -> list of e2e of every answer transmitted to it (incl. the node's own rejections)
        self.hist_app = {}      # origin -> list of e2e of answers that were not duplicate rejections
        self.reqs = {}          # (sid, hbh, e2e) -> dict
        self.ready = {}

    def step(self):
        vs = []
        for ev in self.events():
            k = ev[0]
            if k == "in":
                t, sid, f = ev[1], ev[2], ev[3]
                if not f.h.is_request or f.h.code in (257, 280, 282):
                    continue
                origin = f.get(264)
                is_T = bool(f.h.flags & 0x10)
                a = self.hist_all.get(origin, [])[-self.W:]
                b = self.hist_app.get(origin, [])[-self.W:]
                in_a, in_b = f.h.e2e in a, f.h.e2e in b
                ever = f.h.e2e in self.hist_all.get(origin, [])
                if is_T and in_a and in_b:
                    exp = "reject"
                elif not is_T or not ever or (not in_a and not in_b):
                    exp = "deliver"     # no flag, never answered, or answered but no longer among the W most recent answers
                else:
                    exp = "dontcare"    # the two ways of counting "most recent answers" disagree
                self.nseq = getattr(self, "nseq", 0) + 1
                self.reqs[(sid, f.h.hbh, f.h.e2e)] = {"f": f, "exp": exp, "delivered": 0, "answers": [], "origin": origin, "T": is_T,
                                                      "ready": self.ready.get(sid, False), "ever": ever, "seq": self.nseq}
            elif k == "out":
                t, sid, f = ev[1], ev[2], ev[3]
                if not f.h.is_request and f.h.code == 257 and f.result_code == 2001:
                    self.ready[sid] = True
                if f.h.is_request:
                    continue
                r = self.reqs.get((sid, f.h.hbh, f.h.e2e))
                if r is None:
                    continue
                r["answers"].append(f)
                self.hist_all.setdefault(r["origin"], []).append(f.h.e2e)
                rejected = r["T"] and f.result_code == 5012 and r["delivered"] == 0
                if not rejected:
                    self.hist_app.setdefault(r["origin"], []).append(f.h.e2e)
            elif k == "handle_request":
                t, app_i, hbh, e2e = ev[1], ev[2], ev[3], ev[4]
                # (the same identifier pair may be in flight on several connections: the delivery belongs to the request that arrived last)
                cands = [r for key, r in self.reqs.items() if key[1] == hbh and key[2] == e2e]
                if cands:
                    max(cands, key=lambda r: r["seq"])["delivered"] += 1
        for key, r in self.reqs.items():
            if r.get("judged") or not r["ready"]:
                continue
            r["judged"] = True
            f = r["f"]
            desc = (f"{f!r} origin={r['origin']} T={r['T']}; answers sent to that origin so far (all/app): "
                    f"{[hex(x) for x in self.hist_all.get(r['origin'], [])]}/{[hex(x) for x in self.hist_app.get(r['origin'], [])]} window {self.W}")
            if r["exp"] == "reject":
                if r["delivered"] or [a.result_code for a in r["answers"]] != [5012]:
                    vs.append(("retransmit:T-flagged-duplicate-of-answered-request-not-rejected-5012",
                               f"{desc}: delivered {r['delivered']} answers {r['answers']}"))
            elif r["exp"] == "deliver":
                if r["delivered"] != 1:
                    why = "no-T-flag" if not r["T"] else ("identifiers-never-answered" if f.h.e2e not in self.hist_all.get(r["origin"], [])[:-1] and
                                                          f.h.e2e not in [a.h.e2e for a in r["answers"]][:0] and not r.get("ever") else "evicted-from-window")
                    vs.append((f"retransmit:request-wrongly-treated-as-duplicate:{why}",
                               f"{desc}: delivered {r['delivered']} answers {r['answers']}"))
        return vs

    def state(self):
        return (tuple(sorted((o, tuple(h[-self.W - 1:])) for o, h in self.hist_all.items())),
                tuple(sorted((o, tuple(h[-self.W - 1:])) for o, h in self.hist_app.items())), len(self.reqs))


DISCONNECT_REASON_DPR = 0x20
DISCONNECT_REASON_DWA_TIMEOUT = 0x35


class WatchdogMonitor(WireTracker):
    """C11: idle => exactly one DWR at the next timer check; DWA => ready; silence => closed (watchdog reason)."""

    def __init__(self, sc):
        super().__init__(sc)
        self.st = {}

    def eff(self, s, key):
        cfg = self.sc.cfg
        t = cfg.get("node", {}).get(key, {"idle_timeout": 30, "dwa_timeout": 4}[key])
        for pc in cfg.get("peers", []):
            if pc["name"] == s.host and pc.get(key):
                t = pc[key]
        return t

    def sockstate(self, sid):
        if sid not in self.st:
            self.st[sid] = {"ready": False, "rx": None, "rx_prev": None, "await": None, "dwr_at": [], "closed": False, "env_closed": False,
                            "leaving": False, "pending_dwr": None, "must_close": None, "dwa_at": None}
        return self.st[sid]

    def step(self):
        sc = self.sc
        nw = sc.nw
        vs = []
        socks = {s.fs.sid: s for s in sc.socks}
        evs = self.events()
        for ev in evs:
            k = ev[0]
            if k == "bytes":
                t, sid = ev[1], ev[2]
                st = self.sockstate(sid)
                if st["rx"] != t:
                    st["rx_prev"] = st["rx"]
                st["rx"] = t
            elif k == "in":
                t, sid, f = ev[1], ev[2], ev[3]
                st = self.sockstate(sid)
                s = socks.get(sid)
                if s is not None and s.kind == "dialled" and f.h.code == 257 and not f.h.is_request and f.result_code == 2001:
                    st["ready"] = True
                if not f.h.is_request and f.h.code == 280:
                    st["last_dwa_in"] = t
                    if st["await"] is not None:
                        st["dwa_at"] = t
                if f.h.is_request and f.h.code == 282:
                    st["leaving"] = True
                if f.h.is_request and f.h.code == 280 and st["ready"] and not st["leaving"] and not getattr(nw.node, "_stopping", False):
                    # "a received DWR is answered ... in either ready sub-state": owed at the next quiescent point
                    st.setdefault("dwr_owed", []).append((t, f.h.ident(), st["await"] is not None and st["dwa_at"] is None))
            elif k == "out":
                t, sid, f = ev[1], ev[2], ev[3]
                st = self.sockstate(sid)
                s = socks.get(sid)
                if not f.h.is_request and f.h.code == 280:
                    st["dwr_owed"] = [o for o in st.get("dwr_owed", []) if o[1] != f.h.ident()]
                if not f.h.is_request and f.h.code == 257 and f.result_code == 2001:
                    st["ready"] = True
                    st["rx"] = st["rx"] if st["rx"] is not None else t
                if f.h.is_request and f.h.code == 280:
                    st["dwr_at"].append(t)
                    eff_idle = self.eff(s, "idle_timeout") if s else 0
                    last_strict = st["rx_prev"] if st["rx"] == t else st["rx"]     # bytes arriving in the same instant may not be counted yet
                    if st["await"] is not None and st["dwa_at"] is None and not st.get("ambiguous"):
                        vs.append(("watchdog:second-DWR-while-awaiting-DWA", f"socket {sid} at {t}: DWR, still awaiting the DWA since {st['await']}"))
                    elif not st["ready"]:
                        vs.append(("watchdog:DWR-on-connection-that-is-not-ready", f"socket {sid} at {t}"))
                    elif last_strict is not None and t - last_strict <= eff_idle:
                        vs.append(("watchdog:DWR-although-traffic-arrived-within-the-idle-timeout",
                                   f"socket {sid} at {t}: last bytes at {st['rx']} (before that {st['rx_prev']}), idle timeout {eff_idle}"))
                    st["await"] = t
                    st["dwa_at"] = None
                    st["pending_dwr"] = None
                    # a DWA delivered in the very instant the DWR leaves may or may not be taken as its answer
                    st["ambiguous"] = st.get("last_dwa_in") == t
                    if f.u32(278) is None or f.get(264) != nw.node.origin_host.encode():
                        vs.append(("watchdog:DWR-lacks-origin-host-or-origin-state-id", f"{f!r}"))
                if not f.h.is_request and f.h.code == 280:
                    if f.result_code != 2001 or f.u32(278) != nw.node.state_id:
                        vs.append(("watchdog:DWA-not-2001-with-the-node's-origin-state-id", f"socket {sid}: {f!r} origin-state-id {f.u32(278)} node {nw.node.state_id}"))
            elif k == "timer_check":
                t, sid, state = ev[1], ev[2], ev[3]
                st = self.sockstate(sid)
                s = socks.get(sid)
                if s is None or not st["ready"] or st["env_closed"] or st["closed"] or st["leaving"] or getattr(nw.node, "_stopping", False):
                    continue
                if st.get("ambiguous"):
                    continue
                if st["await"] is not None and st["dwa_at"] is None:
                    if t - st["await"] > self.eff(s, "dwa_timeout"):
                        st["must_close"] = (t, st["await"], self.eff(s, "dwa_timeout"))
                elif st["await"] is not None and st["dwa_at"] is not None:
                    # a DWA has arrived; if it arrived strictly before this check the wait is over
                    if st["dwa_at"] < t:
                        st["await"] = None
                        st["dwa_at"] = None
                if st["await"] is None and st["rx"] is not None and t - st["rx"] > self.eff(s, "idle_timeout"):
                    st["pending_dwr"] = (t, st["rx"], self.eff(s, "idle_timeout"))
            elif k in ("env_eof", "env_reset"):
                self.sockstate(ev[2])["env_closed"] = True
            elif k == "close":
                st = self.sockstate(ev[2])
                st["closed"] = True
                s = socks.get(ev[2])
                if s is not None and st["await"] is not None and st["dwa_at"] is None and not st["env_closed"] and not st["leaving"] \
                        and not getattr(nw.node, "_stopping", False) and ev[1] - st["await"] <= self.eff(s, "dwa_timeout"):
                    vs.append(("watchdog:closed-before-the-DWA-timeout", f"socket {ev[2]}: DWR at {st['await']}, closed at {ev[1]}, timeout {self.eff(s, 'dwa_timeout')}"))
        # quiescent obligations
        for sid, st in self.st.items():
            s = socks.get(sid)
            if s is None:
                continue
            conn = nw.conn_of(s.fs)
            owed, st["dwr_owed"] = st.get("dwr_owed", []), []
            if owed and not s.fs.closed and not st["env_closed"] and not st["closed"] and not s.fs.send_blocked and not st["leaving"]:
                for t, ident, awaiting in owed:
                    vs.append(("watchdog:received-DWR-not-answered:" + ("while-awaiting-DWA" if awaiting else "ready"),
                               f"socket {sid}: DWR {ident} received at {t}, no DWA at quiescence"))
            if st["pending_dwr"] is not None:
                t, rx, idle = st["pending_dwr"]
                st["pending_dwr"] = None
                if not s.fs.closed and not st["env_closed"]:
                    vs.append(("watchdog:no-DWR-at-the-timer-check-after-the-idle-timeout", f"socket {sid}: check at {t}, last bytes at {rx}, idle timeout {idle}"))
            if st["must_close"] is not None and not st.get("close_judged"):
                st["close_judged"] = True
                t, since, tmo = st["must_close"]
                peer = nw.node.peers.get(s.host)
                if not s.fs.closed:
                    vs.append(("watchdog:not-closed-after-the-DWA-timeout", f"socket {sid}: DWR at {since}, check at {t}, timeout {tmo}, still open"))
                elif peer is not None and peer.disconnect_reason != DISCONNECT_REASON_DWA_TIMEOUT:
                    vs.append((f"watchdog:closed-with-reason-{peer.disconnect_reason}-instead-of-watchdog-timeout", f"socket {sid}"))
            if st["ready"] and not st["leaving"] and not s.fs.closed and not st["env_closed"] and not st["closed"] and not getattr(nw.node, "_stopping", False) \
                    and not st.get("ambiguous"):
                # independent of the node's own timer checks: one wake-up interval (+ 2 s slack) after the respective deadline
                now = nw.world.now
                wk = getattr(nw.node, "wakeup_interval", 6) + 2
                if st["await"] is None and st["rx"] is not None and now - st["rx"] > self.eff(s, "idle_timeout") + wk and not st.get("late_dwr"):
                    st["late_dwr"] = True
                    vs.append(("watchdog:no-DWR-a-wake-up-interval-after-the-idle-timeout", f"socket {sid}: last bytes at {st['rx']}, now {now}, idle timeout {self.eff(s, 'idle_timeout')}"))
                if st["await"] is not None and st["dwa_at"] is None and now - st["await"] > self.eff(s, "dwa_timeout") + wk and not st.get("late_close"):
                    st["late_close"] = True
                    vs.append(("watchdog:not-closed-a-wake-up-interval-after-the-DWA-timeout", f"socket {sid}: DWR at {st['await']}, now {now}, timeout {self.eff(s, 'dwa_timeout')}"))
            if conn is not None and st["ready"] and not st["leaving"] and not s.fs.closed and not st.get("ambiguous"):
                awaiting = st["await"] is not None and st["dwa_at"] is None
                if awaiting and conn.state != 0x13:
                    vs.append(("watchdog:not-marked-as-awaiting-DWA-after-DWR", f"socket {sid}: state {conn.state:#x}"))
                if not awaiting and conn.state == 0x13 and not (st["await"] is not None and st["dwa_at"] is not None and False):
                    if st["dwa_at"] is not None or st["await"] is None:
                        vs.append(("watchdog:DWA-did-not-return-the-connection-to-ready", f"socket {sid}: state {conn.state:#x}, DWA at {st['dwa_at']}"))
        return vs

    def state(self):
        now = self.sc.nw.world.now
        cfg = self.sc.cfg
        cap = max([cfg.get("node", {}).get(k, 4) for k in ("idle_timeout", "dwa_timeout")] +
                  [pc.get(k) or 0 for pc in cfg.get("peers", []) for k in ("idle_timeout", "dwa_timeout")]) + cfg.get("node", {}).get("wakeup", 1) + 1

        def age(t):
            return -1 if t is None else min(cap, int(now - t))
        return tuple(sorted((sid, st["ready"], age(st["rx"]), age(st["rx_prev"]) if st["rx"] == now else -2, age(st["await"]), st["dwa_at"] is not None, st["closed"],
                             st["env_closed"], st["leaving"], bool(st["must_close"]), bool(st.get("ambiguous")), st.get("last_dwa_in") == now)
                            for sid, st in self.st.items()))


class GroundTruth(WireTracker):
    """Shared bookkeeping of what the environment knows about every connection (used by C12/C13/C09)."""

    def __init__(self, sc):
        super().__init__(sc)
        self.c = {}     # sid -> dict

    def conn(self, sid):
        if sid not in self.c:
            self.c[sid] = {"kind": None, "peer": None, "identified": False, "ce_ok": False, "node_closed": None, "env_closed": None,
                           "dpr_in": False, "dpr_out": False, "established": None, "connect_t": None, "plan": None, "failed": False}
        return self.c[sid]

    def absorb(self, ev):
        sc = self.sc
        socks = {s.fs.sid: s for s in sc.socks}
        k = ev[0]
        if k == "env_accept":
            g = self.conn(ev[2])
            g["kind"] = "accepted"
            g["established"] = ev[1]
        elif k == "connect":
            t, sid, addr, plan = ev[1], ev[2], ev[3], ev[4]
            g = self.conn(sid)
            g["kind"] = "dialled"
            g["connect_t"] = t
            g["plan"] = plan
            for pc in sc.cfg.get("peers", []):
                if pc.get("ips") and pc["ips"][0] == addr[0]:
                    g["peer"] = pc["name"]
            if plan == "ok":
                g["established"] = t
            elif plan == "refused":
                g["failed"] = True
                g["node_closed"] = g["node_closed"] if g["node_closed"] is not None else t
        elif k == "env_resolve":
            g = self.conn(ev[2])
            if ev[3]:
                g["established"] = ev[1]
            else:
                g["failed"] = True
        elif k in ("env_eof", "env_reset"):
            self.conn(ev[2])["env_closed"] = ev[1]
        elif k == "env_garbage":
            self.conn(ev[2]).setdefault("garbage", ev[1])     # a frame after which the connection can only be ended
        elif k == "close":
            g = self.conn(ev[2])
            if g["node_closed"] is None or g["plan"] == "refused":
                g["node_closed"] = ev[1]
        elif k == "in":
            t, sid, f = ev[1], ev[2], ev[3]
            g = self.conn(sid)
            s = socks.get(sid)
            if f.h.code == 257 and f.h.is_request and s is not None and g["kind"] == "accepted":
                g["cer"] = s.cer_variant
                g["cer_host"] = s.host
            if f.h.code == 257 and not f.h.is_request and g["kind"] == "dialled" and s is not None and s.cea_variant in ("ok", "okcase"):
                g["ce_ok"] = True
                g["identified"] = True
            if f.h.code == 282 and f.h.is_request and g["ce_ok"]:
                g["dpr_in"] = True      # a DPR before the capabilities exchange has succeeded is ignored by the gate (C06)
        elif k == "out":
            t, sid, f = ev[1], ev[2], ev[3]
            g = self.conn(sid)
            if f.h.code == 257 and not f.h.is_request and f.result_code == 2001 and g["kind"] == "accepted":
                g["ce_ok"] = True
                g["identified"] = True
                g["peer"] = g.get("cer_host")
            if f.h.code == 282 and f.h.is_request:
                g["dpr_out"] = True

    def live(self, g):
        return g["established"] is not None and g["node_closed"] is None and g["env_closed"] is None and not g["failed"] and g.get("garbage") is None

    def open_for_node(self, g):
        """The node has not closed it (it may not have noticed a peer close yet - it has, at quiescence)."""
        return g["node_closed"] is None and not g["failed"] and g.get("garbage") is None


class ReconnectMonitor(GroundTruth):
    """C12: DPR => DPA 2001, no routing, reason DPR; reconnect policy; never two self-initiated connections."""

    def __init__(self, sc):
        super().__init__(sc)
        self.lost = {}          # peer name -> (time of loss, loss followed a DPR)
        self.dpr_pending = {}   # sid -> request frame awaiting DPA
        self.first_connect_done = set()

    def peer_cfg(self, name):
        for pc in self.sc.cfg.get("peers", []):
            if pc["name"] == name:
                return pc
        return None

    def step(self):
        sc = self.sc
        nw = sc.nw
        node = nw.node
        vs = []
        stopping = getattr(node, "_stopping", False)
        for ev in self.events():
            k = ev[0]
            before_closed = {sid: g["node_closed"] for sid, g in self.c.items()}
            self.absorb(ev)
            if k == "in":
                t, sid, f = ev[1], ev[2], ev[3]
                g = self.conn(sid)
                if f.h.code == 282 and f.h.is_request and g["ce_ok"] and self.live(g):
                    self.dpr_pending[sid] = f
            elif k == "out":
                t, sid, f = ev[1], ev[2], ev[3]
                g = self.conn(sid)
                if f.h.code == 282 and not f.h.is_request and sid in self.dpr_pending:
                    if f.result_code != 2001:
                        vs.append((f"dpr:DPA-result-{f.result_code}-instead-of-2001", f"socket {sid}: {f!r}"))
                    self.dpr_pending.pop(sid)
                    g["dpa_sent"] = True
                if f.h.is_request and f.h.code not in (257, 280, 282) and (g["dpr_in"]):
                    vs.append(("dpr:request-routed-to-a-connection-after-its-DPR", f"socket {sid}: {f!r}"))
            elif k == "env_garbage":
                # a frame that can only make the node end the connection: the peer's connection is lost from this instant on, whether or
                # not the node gets round to closing the socket
                g = self.conn(ev[2])
                if (g["kind"] == "dialled" or g["identified"]) and g["peer"] is not None and g["garbage"] == ev[1] and \
                        g["established"] is not None and g["node_closed"] is None and g["env_closed"] is None and not g["failed"]:
                    self.lost[g["peer"]] = (ev[1], g["dpr_in"])
            elif k in ("close", "env_eof", "env_reset", "env_resolve", "connect"):
                sid = ev[2]
                g = self.conn(sid)
                if g["kind"] == "dialled" or g["identified"]:
                    name = g["peer"]
                    lost_now = (k == "close" and before_closed.get(sid) is None) or (k == "connect" and ev[4] == "refused") or \
                               (k == "env_resolve" and not ev[3])
                    if lost_now and name is not None:
                        prev = self.lost.get(name)
                        self.lost[name] = (ev[1], g["dpr_in"])
                if k == "connect":
                    t, addr, plan = ev[1], ev[3], ev[4]
                    name = g["peer"]
                    pc = self.peer_cfg(name) if name else None
                    if pc is None:
                        vs.append(("reconnect:connect-to-an-address-of-no-configured-peer", f"{addr}"))
                        continue
                    first = name not in self.first_connect_done
                    self.first_connect_done.add(name)
                    others = [s2 for s2, g2 in self.c.items() if s2 != sid and g2["peer"] == name and g2["kind"] == "dialled" and self.open_for_node(g2)]
                    if others:
                        vs.append(("reconnect:two-self-initiated-connections-to-one-peer", f"peer {name}: new socket {sid} while {others} still open"))
                    any_conn = [s2 for s2, g2 in self.c.items() if s2 != sid and g2["peer"] == name and self.open_for_node(g2) and
                                (g2["kind"] == "dialled" or g2["identified"])]
                    if not pc.get("persistent"):
                        vs.append(("reconnect:non-persistent-peer-dialled", f"peer {name} at {t}"))
                    fsock = next((x.fs for x in sc.socks if x.fs.sid == sid), None) or next((x for x in nw.world.socks if x.sid == sid), None)
                    if fsock is not None and fsock.created_while:
                        vs.append(("reconnect:dialled-while-stopping", f"peer {name} at {t}: socket {sid} was created after stop() had begun"))
                    if any_conn and not others:
                        vs.append(("reconnect:dialled-although-the-peer-has-a-connection", f"peer {name} at {t}: sockets {any_conn}"))
                    if not first:
                        lost = getattr(self, "prev_lost", {}).get(name)
                        if lost is None:
                            vs.append(("reconnect:redial-without-a-recorded-loss", f"peer {name} at {t}"))
                        else:
                            tl, after_dpr = lost
                            wait = pc.get("reconnect_wait", 30)
                            if t - tl < wait:
                                vs.append(("reconnect:redial-before-reconnect-wait-elapsed", f"peer {name}: lost at {tl}, dialled at {t}, wait {wait}"))
                            if after_dpr and not pc.get("always_reconnect"):
                                vs.append(("reconnect:redial-after-DPR-without-always-reconnect", f"peer {name}: lost at {tl} after a DPR, dialled at {t}"))
            elif k == "reconnect_check":
                t = ev[1]
                if stopping:
                    continue
                for pc in sc.cfg.get("peers", []):
                    name = pc["name"]
                    if not pc.get("persistent") or not pc.get("ips"):
                        continue
                    lost = self.lost.get(name)
                    if lost is None:
                        continue
                    tl, after_dpr = lost
                    has = [s2 for s2, g2 in self.c.items() if g2["peer"] == name and self.open_for_node(g2) and (g2["kind"] == "dialled" or g2["identified"])]
                    if has:
                        continue
                    if after_dpr and not pc.get("always_reconnect"):
                        continue
                    if t - tl >= pc.get("reconnect_wait", 30) and tl < t:
                        self.due = getattr(self, "due", {})
                        self.due.setdefault(name, (t, tl))
            self.prev_lost = dict(self.lost) if k != "connect" else getattr(self, "prev_lost", {})
            if k == "connect":
                # a connect clears what was due for that peer
                g = self.conn(ev[2])
                if getattr(self, "due", None) and g["peer"] in self.due:
                    self.due.pop(g["peer"])
                self.prev_lost = dict(self.lost)
        # quiescent obligations
        due = getattr(self, "due", {})
        for name, (t, tl) in list(due.items()):
            due.pop(name)
            vs.append(("reconnect:persistent-peer-not-redialled-after-reconnect-wait", f"peer {name}: lost at {tl}, reconnect check at {t}, no connect()"))
        if not stopping:
            now = nw.world.now
            for pc in sc.cfg.get("peers", []):
                name = pc["name"]
                if not pc.get("persistent") or not pc.get("ips"):
                    continue
                lost = self.lost.get(name)
                if lost is None or (lost[1] and not pc.get("always_reconnect")):
                    continue
                has = [s2 for s2, g2 in self.c.items() if g2["peer"] == name and self.open_for_node(g2) and (g2["kind"] == "dialled" or g2["identified"])]
                limit = pc.get("reconnect_wait", 30) + getattr(node, "wakeup_interval", 6) + 2
                if not has and now - lost[0] > limit and getattr(self, "late_reported", {}).get(name) != lost[0]:
                    self.late_reported = getattr(self, "late_reported", {})
                    self.late_reported[name] = lost[0]
                    vs.append(("reconnect:persistent-peer-not-redialled-a-wake-up-interval-after-reconnect-wait",
                               f"peer {name}: lost at {lost[0]}, now {now}, reconnect wait {pc.get('reconnect_wait', 30)}, wake-up interval {getattr(node, 'wakeup_interval', 6)}"))
        for sid, f in list(self.dpr_pending.items()):
            g = self.conn(sid)
            if self.live(g) and not g.get("reported_nodpa"):
                g["reported_nodpa"] = True
                vs.append(("dpr:no-DPA-for-a-DPR-on-a-ready-connection", f"socket {sid}: {f!r}"))
            self.dpr_pending.pop(sid)
        for sid, g in self.c.items():
            if g["dpr_in"] and g["ce_ok"] and g["peer"] and not g.get("reason_checked"):
                g["reason_checked"] = True
                peer = node.peers.get(g["peer"])
                if peer is not None and peer.disconnect_reason != DISCONNECT_REASON_DPR:
                    vs.append((f"dpr:disconnect-reason-{peer.disconnect_reason}-does-not-record-the-DPR", f"socket {sid} peer {g['peer']}"))
        return vs

    def state(self):
        now = self.sc.nw.world.now
        cap = max([pc.get("reconnect_wait", 30) for pc in self.sc.cfg.get("peers", [])] + [1]) + 2
        return (tuple(sorted((n, min(cap, int(now - tl)), d) for n, (tl, d) in self.lost.items())),
                tuple(sorted((sid, g["kind"], g["peer"], g["identified"], g["ce_ok"], g["node_closed"] is not None, g["env_closed"] is not None,
                              g["dpr_in"], g["failed"], g["established"] is not None) for sid, g in self.c.items())),
                tuple(sorted(self.first_connect_done)))


class TableMonitor(GroundTruth):
    """C13: peer/connection tables and application readiness are consistent at every quiescent point."""

    def __init__(self, sc):
        super().__init__(sc)
        self.had_connection = set()     # peers that had a connection at some earlier quiescent point

    def step(self):
        sc = self.sc
        nw = sc.nw
        node = nw.node
        for ev in self.events():
            self.absorb(ev)
        vs = []
        fs_by_sid = {s.fs.sid: s.fs for s in sc.socks}
        conns = dict(node.connections)
        psocks = dict(node.peer_sockets)
        # (c) tables agree with the sockets
        for ident, c in conns.items():
            fs = psocks.get(ident)
            if fs is None:
                vs.append(("tables:connection-without-socket-entry", f"connection {ident} state {c.state:#x}"))
            elif fs.closed:
                vs.append(("tables:connection-whose-socket-is-closed-still-listed", f"connection {ident} state {c.state:#x} socket {fs.sid}"))
            if c.state == 0x1c:
                vs.append(("tables:closed-connection-still-in-connections", f"connection {ident}"))
        for ident, fs in psocks.items():
            if ident not in conns:
                vs.append(("tables:socket-entry-without-connection", f"ident {ident} socket {fs.sid}"))
            if fs.closed:
                vs.append(("tables:closed-socket-still-in-peer_sockets", f"ident {ident} socket {fs.sid}"))
        # the table of connections whose capabilities exchange is pending is a connection table too
        for ident, c in dict(getattr(node, "_half_ready_connections", {})).items():
            if ident not in conns or c.state == 0x1c:
                vs.append(("tables:closed-connection-still-in-the-pending-connections-table", f"connection {ident} state {c.state:#x}"))
        listed = {fs.sid for fs in psocks.values()}
        for sid, g in self.c.items():
            fs = fs_by_sid.get(sid)
            if fs is None:
                continue
            if g["node_closed"] is None and not g["failed"] and g["env_closed"] is not None and not fs.closed:
                vs.append(("tables:connection-the-peer-closed-is-still-open-at-quiescence", f"socket {sid}"))
            if (g["env_closed"] is not None or g["failed"]) and sid in listed:
                vs.append(("tables:ended-connection-still-listed", f"socket {sid}"))
            if g["kind"] in ("accepted", "dialled") and sid not in listed and not fs.closed:
                vs.append(("tables:socket-of-a-connection-no-longer-listed-was-never-closed", f"socket {sid} ({g['kind']})"))
        # (a)/(b) peer.connection
        for name, peer in node.peers.items():
            pc = peer.connection
            live = [sid for sid, g in self.c.items() if g["peer"] == name and self.live(g) and (g["kind"] == "dialled" or g["identified"])
                    and not fs_by_sid[sid].closed]
            # dialled sockets whose connect is still in progress belong to the peer as well
            pending = [sid for sid, g in self.c.items() if g["peer"] == name and g["kind"] == "dialled" and g["established"] is None
                       and self.open_for_node(g) and not fs_by_sid[sid].closed]
            if pc is not None:
                self.had_connection.add(name)
                ident = pc.ident
                fs = psocks.get(ident)
                if conns.get(ident) is not pc or pc.state == 0x1c or fs is None or fs.closed:
                    vs.append(("peer.connection:references-a-connection-that-is-not-live", f"peer {name}: ident {ident} state {pc.state:#x}"))
                elif fs.sid not in live + pending:
                    vs.append(("peer.connection:references-a-connection-of-another-peer-or-an-unidentified-one", f"peer {name}: socket {fs.sid}, its own {live + pending}"))
            elif live:
                vs.append(("peer.connection:is-None-although-a-live-connection-of-the-peer-exists", f"peer {name}: live sockets {live}"))
            # (d)
            if pc is None and name in self.had_connection and (peer.disconnect_reason is None or not peer.last_disconnect):
                vs.append(("peer:disconnect-reason-or-time-unset-after-removal", f"peer {name}: reason {peer.disconnect_reason} last_disconnect {peer.last_disconnect}"))
        # (e) application readiness
        for ai, (app, ac) in enumerate(zip(nw.apps, sc.cfg.get("apps", []))):
            peers = [nw.peers[i] for i in ac.get("peers", [])]
            any_ready = any(p.connection is not None and p.connection.state in PEER_READY_STATES and
                            psocks.get(p.connection.ident) is not None and not psocks[p.connection.ident].closed for p in peers)
            gt_ready = False
            gt_any = False
            for i in ac.get("peers", []):
                nm = sc.cfg["peers"][i]["name"]
                for sid, g in self.c.items():
                    if g["peer"] == nm and self.live(g) and not fs_by_sid[sid].closed:
                        gt_any = True
                        if g["ce_ok"] and not g["dpr_in"] and not g["dpr_out"]:
                            gt_ready = True
                    if g["peer"] == nm and g["kind"] == "dialled" and self.open_for_node(g) and not fs_by_sid[sid].closed:
                        gt_any = True
            if gt_ready and not app.is_ready.is_set():
                vs.append(("readiness:application-not-ready-although-a-configured-peer-has-a-ready-connection", f"application {ai}"))
            if not gt_any and app.is_ready.is_set():
                vs.append(("readiness:application-ready-although-none-of-its-peers-has-a-connection", f"application {ai}"))
        return vs

    def state(self):
        return (tuple(sorted(self.had_connection)),
                tuple(sorted((sid, g["kind"], g["peer"], g["identified"], g["ce_ok"], g["node_closed"] is not None, g["env_closed"] is not None,
                              g["dpr_in"], g["dpr_out"], g["failed"], g["established"] is not None) for sid, g in self.c.items())))


class AnswerRouteMonitor(GroundTruth):
    """C09: application answers go only to the requesting connection, at most once; else NotRoutable and nothing is sent."""

    def __init__(self, sc):
        super().__init__(sc)
        self.req = {}       # e2e -> dict(sid, ident, j, app_answers=[sids], attempts=[...])
        self.by_j = {}

    def step(self):
        sc = self.sc
        vs = []
        for ev in self.events():
            self.absorb(ev)
            k = ev[0]
            if k == "in":
                t, sid, f = ev[1], ev[2], ev[3]
                if f.h.is_request and f.h.code not in (257, 280, 282):
                    self.req[f.h.e2e] = {"sid": sid, "ident": f.h.ident(), "j": None, "frames": [], "attempts": [], "expect_none_after": None}
            elif k == "handle_request":
                t, app_i, hbh, e2e, j = ev[1], ev[2], ev[3], ev[4], ev[5]
                if e2e in self.req:
                    self.req[e2e]["j"] = j
                    self.by_j[j] = e2e
            elif k == "env_answer":
                t, j, res = ev[1], ev[2], ev[3]
                e2e = self.by_j.get(j)
                if e2e is None:
                    continue
                r = self.req[e2e]
                g = self.conn(r["sid"])
                fs = next((s.fs for s in sc.socks if s.fs.sid == r["sid"]), None)
                routable = self.live(g) and g["ce_ok"] and not g["dpr_in"] and not g["dpr_out"] and fs is not None and not fs.closed
                first = not any(a[0] == "sent" for a in r["attempts"])
                r["attempts"].append((res, routable, first, len(r["frames"])))
                why = "connection-ready" if routable else ("connection-closed" if not self.live(g) or (fs is not None and fs.closed) else "connection-not-ready")
                if routable and first:
                    if res != "sent":
                        vs.append((f"answer-route:submission-fails-although-the-requesting-connection-is-ready:{res}",
                                   f"request {j} on socket {r['sid']} ident {r['ident']}: send_answer raised {res}"))
                    else:
                        r["expect_frame"] = True
                else:
                    tag = "second-answer" if not first else why
                    if res == "sent":
                        r["expect_none_after"] = (len(r["frames"]), tag)
                        r["sent_when_not_routable"] = tag
                    elif res != "NotRoutable":
                        vs.append((f"answer-route:submission-fails-with-{res}-instead-of-NotRoutable:{tag}", f"request {j} on socket {r['sid']}"))
            elif k == "out":
                t, sid, f = ev[1], ev[2], ev[3]
                if f.h.is_request or f.h.e2e not in self.req:
                    continue
                r = self.req[f.h.e2e]
                if f.h.ident() != r["ident"]:
                    continue
                if f.result_code not in (2001, None):
                    continue            # the node's own error answers are judged by C07/C08
                r["frames"].append(sid)
                if sid != r["sid"]:
                    vs.append(("answer-route:application-answer-transmitted-on-another-connection",
                               f"request read from socket {r['sid']} ({r['ident']}), its answer was written to socket {sid}"))
        for e2e, r in self.req.items():
            own = [x for x in r["frames"] if x == r["sid"]]
            if len(own) > 1 and not r.get("dup_reported"):
                r["dup_reported"] = True
                vs.append(("answer-route:application-answer-transmitted-twice", f"request ident {r['ident']} on socket {r['sid']}: {len(own)} answers"))
            if r.get("sent_when_not_routable") and not r.get("nr_reported"):
                n0, tag = r["expect_none_after"]
                r["nr_reported"] = True
                wrote = len(r["frames"]) > n0
                vs.append((f"answer-route:submission-accepted-instead-of-NotRoutable:{tag}:{'and-transmitted' if wrote else 'nothing-transmitted'}",
                           f"request ident {r['ident']} read from socket {r['sid']}; frames so far on sockets {r['frames']}"))
            if r.get("expect_frame") and not r.get("frame_checked"):
                r["frame_checked"] = True
                g = self.conn(r["sid"])
                if not own and self.live(g):
                    vs.append(("answer-route:accepted-answer-never-transmitted-on-the-requesting-connection", f"request ident {r['ident']} socket {r['sid']}"))
        return vs

    def state(self):
        return (tuple(sorted((e, r["sid"], r["j"], tuple(r["frames"]), tuple(a[0] for a in r["attempts"])) for e, r in self.req.items())),
                tuple(sorted((sid, g["kind"], g["peer"], g["ce_ok"], g["node_closed"] is not None, g["env_closed"] is not None, g["dpr_in"])
                             for sid, g in self.c.items())))


class AnswerRoutePairMonitor(GroundTruth):
    """C09 for histories in which requests on different connections may carry the same (hop-by-hop, end-to-end) pair: hop-by-hop ids
    are unique per connection only and end-to-end ids per origin host only, so two relays may well present the same pair.  Requests
    are told apart by arrival order and answer frames are attributed to the submission made in the same transition (one
    ("ans", j) event = one transition run to quiescence)."""

    def __init__(self, sc):
        super().__init__(sc)
        self.reqs = []
        self.by_j = {}

    def step(self):
        sc = self.sc
        vs = []
        frames = []
        subs = []
        for ev in self.events():
            self.absorb(ev)
            k = ev[0]
            if k == "in":
                t, sid, f = ev[1], ev[2], ev[3]
                if f.h.is_request and f.h.code not in (257, 280, 282):
                    self.reqs.append({"sid": sid, "ident": f.h.ident(), "j": None, "accepted": False})
            elif k == "handle_request":
                t, app_i, hbh, e2e, j = ev[1], ev[2], ev[3], ev[4], ev[5]
                for r in reversed(self.reqs):
                    if r["j"] is None and r["ident"][2:] == (hbh, e2e):
                        r["j"] = j
                        self.by_j[j] = r
                        break
            elif k == "out":
                t, sid, f = ev[1], ev[2], ev[3]
                if not f.h.is_request and f.h.code not in (257, 280, 282) and f.result_code in (2001, None):
                    frames.append((sid, f))
            elif k == "env_answer":
                subs.append((ev[2], ev[3]))
        if len(subs) != 1 or subs[0][0] not in self.by_j:
            return vs
        j, res = subs[0]
        r = self.by_j[j]
        g = self.conn(r["sid"])
        fs = next((s.fs for s in sc.socks if s.fs.sid == r["sid"]), None)
        routable = self.live(g) and g["ce_ok"] and not g["dpr_in"] and not g["dpr_out"] and fs is not None and not fs.closed
        first = not r["accepted"]
        twin = any(o is not r and o["ident"] == r["ident"] and o["sid"] != r["sid"] for o in self.reqs)
        sfx = ":identifier-pair-also-seen-on-another-connection" if twin else ""
        mine = [sid for sid, f in frames if f.h.ident() == r["ident"]]
        own = [x for x in mine if x == r["sid"]]
        other = [x for x in mine if x != r["sid"]]
        desc = f"request {j} read from socket {r['sid']} ident {r['ident']}: send_answer -> {res}; answer frames in this step on sockets {mine}"
        if other:
            vs.append(("answer-route:application-answer-transmitted-on-another-connection" + sfx, desc))
        if len(own) > 1:
            vs.append(("answer-route:application-answer-transmitted-twice" + sfx, desc))
        if routable and first:
            if res != "sent":
                vs.append((f"answer-route:submission-fails-although-the-requesting-connection-is-ready:{res}" + sfx, desc))
            elif not own:
                vs.append(("answer-route:accepted-answer-never-transmitted-on-the-requesting-connection" + sfx, desc))
        else:
            tag = "second-answer" if not first else ("connection-closed" if not self.live(g) or (fs is not None and fs.closed) else "connection-not-ready")
            if res == "sent":
                vs.append((f"answer-route:submission-accepted-instead-of-NotRoutable:{tag}:{'and-transmitted' if mine else 'nothing-transmitted'}" + sfx, desc))
            elif res != "NotRoutable":
                vs.append((f"answer-route:submission-fails-with-{res}-instead-of-NotRoutable:{tag}" + sfx, desc))
        if res == "sent":
            r["accepted"] = True
        return vs

    def state(self):
        return (tuple((r["sid"], r["ident"], r["j"], r["accepted"]) for r in self.reqs),
                tuple(sorted((sid, g["kind"], g["peer"], g["ce_ok"], g["node_closed"] is not None, g["env_closed"] is not None, g["dpr_in"])
                             for sid, g in self.c.items())))


class RequestTargetMonitor(GroundTruth):
    """C10 (dynamic part): every application request the node writes goes to a socket whose connection is ready *now*
    and whose peer is configured for the request's application and realm (or is a default peer of the realm)."""

    def step(self):
        sc = self.sc
        cfg = sc.cfg
        vs = []
        for ev in self.events():
            self.absorb(ev)
            if ev[0] != "out":
                continue
            t, sid, f = ev[1], ev[2], ev[3]
            if not f.h.is_request or f.h.code in (257, 280, 282):
                continue
            g = self.conn(sid)
            fs = next((s.fs for s in sc.socks if s.fs.sid == sid), None)
            why = None
            if not g["ce_ok"]:
                why = "capabilities-exchange-not-completed"
            elif g["dpr_in"] or g["dpr_out"]:
                why = "disconnecting-after-a-DPR"
            elif g["env_closed"] is not None or g["node_closed"] is not None:
                why = "closed"
            if why:
                vs.append((f"route-request:request-written-to-a-connection-that-is-{why}", f"socket {sid}: {f!r}"))
                continue
            realm = (f.get(283) or b"").decode()
            peer_i = next((i for i, pc in enumerate(cfg["peers"]) if pc["name"] == g["peer"]), None)
            ok = False
            for a in cfg.get("apps", []):
                if a["id"] == f.h.app and peer_i in a.get("peers", []) and \
                        realm in ({cfg["peers"][peer_i].get("realm", env.NODE_REALM)} | set(a.get("realms", []))):
                    ok = True
            if peer_i is not None and cfg["peers"][peer_i].get("default") and cfg["peers"][peer_i].get("realm", env.NODE_REALM) == realm:
                ok = True
            if not ok:
                vs.append(("route-request:request-written-to-a-peer-not-configured-for-application-and-realm", f"socket {sid} peer {g['peer']}: {f!r}"))
        # a caller that got NotRoutable although an eligible connection was ready all along is judged in part A
        return vs

    def state(self):
        return tuple(sorted((sid, g["ce_ok"], g["dpr_in"], g["dpr_out"], g["env_closed"] is not None, g["node_closed"] is not None)
                            for sid, g in self.c.items()))
