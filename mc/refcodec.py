"""Independent reference codec (oracle for E1 checks and frame parser for node monitors).

Written from RFC 6733 sections 3, 4.1-4.4 and RFC 5905 era arithmetic.  Uses only
int.to_bytes / int.from_bytes, exact rational arithmetic for IEEE-754, `ipaddress` and
`datetime`; never a function of the library under test.
"""
from __future__ import annotations

import datetime
import fractions
import ipaddress
import math

FLAG_V, FLAG_M, FLAG_P = 0x80, 0x40, 0x20
HDR_R, HDR_P, HDR_E, HDR_T = 0x80, 0x40, 0x20, 0x10
NTP_UNIX_OFFSET = 2208988800                # seconds 1900-01-01 -> 1970-01-01
ERA = 1 << 32
TIME_MIN_UNIX = (1 << 31) - NTP_UNIX_OFFSET           # 1968-01-20T03:14:08Z
TIME_MAX_UNIX = ERA + (1 << 31) - 1 - NTP_UNIX_OFFSET  # 2104-02-26T09:42:23Z
EPOCH = datetime.datetime(1970, 1, 1)


class RefError(Exception):
    pass


class OutOfDomain(RefError):
    pass


# ------------------------------------------------------------------ AVP layer
def pad4(n):
    return (-n) % 4


def enc_avp(code, data=b"", flags=0, vendor=0):
    """flags: M/P bits as wanted; V is derived from vendor."""
    fl = (flags & ~FLAG_V) | (FLAG_V if vendor else 0)
    hdr = 12 if vendor else 8
    length = hdr + len(data)
    if length >= 1 << 24:
        raise OutOfDomain("AVP too long")
    out = code.to_bytes(4, "big") + bytes([fl]) + length.to_bytes(3, "big")
    if vendor:
        out += vendor.to_bytes(4, "big")
    return out + data + b"\0" * pad4(len(data))


def dec_avp_at(buf, pos):
    """Decode one AVP at pos; returns (code, flags, vendor, payload, next_pos)."""
    if pos + 8 > len(buf):
        raise RefError("truncated AVP header")
    code = int.from_bytes(buf[pos:pos + 4], "big")
    flags = buf[pos + 4]
    length = int.from_bytes(buf[pos + 5:pos + 8], "big")
    hdr = 8
    vendor = 0
    if flags & FLAG_V:
        if pos + 12 > len(buf):
            raise RefError("truncated vendor id")
        vendor = int.from_bytes(buf[pos + 8:pos + 12], "big")
        hdr = 12
    if length < hdr:
        raise RefError("AVP length below header size")
    dlen = length - hdr
    end = pos + hdr + dlen + pad4(dlen)
    if end > len(buf):
        raise RefError("AVP overruns buffer")
    return code, flags, vendor, bytes(buf[pos + hdr:pos + hdr + dlen]), end


def dec_avps(buf):
    out = []
    pos = 0
    while pos < len(buf):
        code, flags, vendor, payload, pos = dec_avp_at(buf, pos)
        out.append((code, flags, vendor, payload))
    return out


# ------------------------------------------------------------------ message layer
def enc_header(version=1, length=20, flags=0, code=0, app=0, hbh=0, e2e=0):
    return (bytes([version]) + length.to_bytes(3, "big") + bytes([flags]) + code.to_bytes(3, "big")
            + app.to_bytes(4, "big") + hbh.to_bytes(4, "big") + e2e.to_bytes(4, "big"))


def enc_msg(code, flags=0, app=0, hbh=0, e2e=0, avps=(), version=1):
    body = b"".join(avps)
    return enc_header(version, 20 + len(body), flags, code, app, hbh, e2e) + body


class Hdr:
    __slots__ = ("version", "length", "flags", "code", "app", "hbh", "e2e")

    def __init__(self, b):
        if len(b) < 20:
            raise RefError("short header")
        self.version = b[0]
        self.length = int.from_bytes(b[1:4], "big")
        self.flags = b[4]
        self.code = int.from_bytes(b[5:8], "big")
        self.app = int.from_bytes(b[8:12], "big")
        self.hbh = int.from_bytes(b[12:16], "big")
        self.e2e = int.from_bytes(b[16:20], "big")

    @property
    def is_request(self):
        return bool(self.flags & HDR_R)

    def ident(self):
        return (self.code, self.app, self.hbh, self.e2e)

    def __repr__(self):
        return (f"<{'R' if self.is_request else 'A'} code={self.code} app={self.app} "
                f"hbh={self.hbh:#x} e2e={self.e2e:#x} fl={self.flags:#04x} len={self.length}>")


class Frame:
    """A decoded frame: header + top-level AVPs (first occurrence lookup helpers)."""
    __slots__ = ("raw", "h", "avps")

    def __init__(self, raw):
        self.raw = bytes(raw)
        self.h = Hdr(self.raw)
        self.avps = dec_avps(self.raw[20:self.h.length])

    def get(self, code, vendor=0):
        for c, f, v, p in self.avps:
            if c == code and v == vendor:
                return p
        return None

    def getall(self, code, vendor=0):
        return [p for c, f, v, p in self.avps if c == code and v == vendor]

    def u32(self, code, vendor=0):
        p = self.get(code, vendor)
        return None if p is None or len(p) != 4 else int.from_bytes(p, "big")

    @property
    def result_code(self):
        return self.u32(268)

    def __repr__(self):
        return f"{self.h!r} rc={self.result_code}"


def split_frames(buf):
    """Split a byte string into complete frames by header length; returns (frames, rest)."""
    out = []
    pos = 0
    while len(buf) - pos >= 20:
        ln = int.from_bytes(buf[pos + 1:pos + 4], "big")
        if ln < 20:
            raise RefError(f"frame length {ln} < 20 in node output")
        if pos + ln > len(buf):
            break
        out.append(bytes(buf[pos:pos + ln]))
        pos += ln
    return out, bytes(buf[pos:])


# ------------------------------------------------------------------ value layer
def enc_int(v, nbytes, signed):
    if isinstance(v, bool) or not isinstance(v, int):
        raise OutOfDomain("not an int")
    lo, hi = (-(1 << (8 * nbytes - 1)), (1 << (8 * nbytes - 1)) - 1) if signed else (0, (1 << (8 * nbytes)) - 1)
    if not lo <= v <= hi:
        raise OutOfDomain("integer out of range")
    return v.to_bytes(nbytes, "big", signed=signed)


def _float_bits(x, ebits, mbits):
    """Exact round-to-nearest-even conversion of a Python float to an IEEE bit pattern."""
    if not isinstance(x, float):
        if isinstance(x, int) and not isinstance(x, bool):
            x = float(x)        # struct accepts ints for 'f'/'d'
        else:
            raise OutOfDomain("not a float")
    bias = (1 << (ebits - 1)) - 1
    emax = (1 << ebits) - 1
    if x != x:
        return None             # NaN: any NaN pattern is acceptable
    sign = 1 if math.copysign(1.0, x) < 0 else 0
    if math.isinf(x):
        return (sign << (ebits + mbits)) | (emax << mbits)
    if x == 0:
        return sign << (ebits + mbits)
    fr = fractions.Fraction(abs(x))
    e = math.frexp(abs(x))[1] - 1           # abs(x) = m * 2^e with 1 <= m < 2
    if e < 1 - bias:
        e = 1 - bias                        # subnormal range: fixed exponent
    scaled = fr / fractions.Fraction(2) ** (e - mbits)   # = significand incl. hidden bit
    q, r = divmod(scaled.numerator, scaled.denominator)
    twice = 2 * r
    if twice > scaled.denominator or (twice == scaled.denominator and (q & 1)):
        q += 1
    if q >= (1 << (mbits + 1)):
        q >>= 1
        e += 1
    if q < (1 << mbits):                    # subnormal (or zero after rounding)
        exp_field = 0
        mant = q
    else:
        exp_field = e + bias
        mant = q - (1 << mbits)
    if exp_field >= emax:
        raise OutOfDomain("float too large for the width")
    return (sign << (ebits + mbits)) | (exp_field << mbits) | mant


def bits_to_float(bits, ebits, mbits):
    """Exact value of an IEEE pattern as a Python float (NaN -> nan)."""
    sign = -1.0 if bits >> (ebits + mbits) else 1.0
    exp_field = (bits >> mbits) & ((1 << ebits) - 1)
    mant = bits & ((1 << mbits) - 1)
    bias = (1 << (ebits - 1)) - 1
    if exp_field == (1 << ebits) - 1:
        return math.copysign(math.inf, sign) if mant == 0 else math.nan
    if exp_field == 0:
        return sign * math.ldexp(mant, 1 - bias - mbits)
    return sign * math.ldexp(mant + (1 << mbits), exp_field - bias - mbits)


def enc_f32(x):
    b = _float_bits(x, 8, 23)
    return None if b is None else b.to_bytes(4, "big")


def enc_f64(x):
    b = _float_bits(x, 11, 52)
    return None if b is None else b.to_bytes(8, "big")


def is_nan_pattern(p):
    if len(p) == 4:
        b = int.from_bytes(p, "big")
        return (b >> 23) & 0xff == 0xff and b & 0x7fffff != 0
    b = int.from_bytes(p, "big")
    return (b >> 52) & 0x7ff == 0x7ff and b & ((1 << 52) - 1) != 0


def enc_time(dt):
    """Naive datetime interpreted as UTC (process TZ=UTC) -> 4 bytes, RFC 5905 eras 0/1."""
    if not isinstance(dt, datetime.datetime):
        raise OutOfDomain("not a datetime")
    unix = (dt.replace(microsecond=0, tzinfo=None) - EPOCH) // datetime.timedelta(seconds=1)
    if dt.tzinfo is not None:
        unix = int(dt.timestamp())
    if not TIME_MIN_UNIX <= unix <= TIME_MAX_UNIX:
        raise OutOfDomain("outside 1968-01-20T03:14:08Z .. 2104-02-26T09:42:23Z")
    return ((unix + NTP_UNIX_OFFSET) % ERA).to_bytes(4, "big")


def dec_time(p):
    if len(p) != 4:
        raise RefError("Time payload must be 4 octets")
    w = int.from_bytes(p, "big")
    ntp = w if w & 0x80000000 else w + ERA
    return EPOCH + datetime.timedelta(seconds=ntp - NTP_UNIX_OFFSET)


def enc_address(text):
    """Returns payload for an address given as text; family 1/2 by parse, else E.164 (8)."""
    if not isinstance(text, str):
        raise OutOfDomain("not a str")
    if "." in text or ":" in text:
        try:
            ip = ipaddress.ip_address(text)
        except ValueError:
            raise OutOfDomain("neither IPv4 nor IPv6")
        fam = 1 if ip.version == 4 else 2
        return fam.to_bytes(2, "big") + ip.packed
    return (8).to_bytes(2, "big") + text.encode("utf-8")


def dec_address(p):
    if len(p) < 2:
        raise RefError("short address")
    fam = int.from_bytes(p[:2], "big")
    body = p[2:]
    if fam == 1:
        if len(body) != 4:
            raise RefError("bad IPv4 size")
        return fam, str(ipaddress.IPv4Address(body))
    if fam == 2:
        if len(body) != 16:
            raise RefError("bad IPv6 size")
        return fam, ipaddress.IPv6Address(body)      # compared semantically
    if fam == 8:
        try:
            return fam, body.decode("utf-8")
        except UnicodeDecodeError:
            raise RefError("bad E.164 text")
    return fam, body.hex()


def enc_utf8(s):
    if not isinstance(s, str):
        raise OutOfDomain("not a str")
    try:
        return s.encode("utf-8", "strict")
    except UnicodeEncodeError:
        raise OutOfDomain("not encodable")


TYPE_NAMES = {
    "AvpOctetString": "octets", "AvpUtf8String": "utf8", "AvpInteger32": "i32",
    "AvpInteger64": "i64", "AvpUnsigned32": "u32", "AvpUnsigned64": "u64",
    "AvpFloat32": "f32", "AvpFloat64": "f64", "AvpTime": "time", "AvpAddress": "addr",
    "AvpGrouped": "grouped", "Avp": "raw",
}


def enc_value(tname, v):
    """Reference payload for value v of type tname; None = any NaN pattern acceptable."""
    if tname == "octets" or tname == "raw":
        if not isinstance(v, bytes):
            raise OutOfDomain("not bytes")
        return v
    if tname == "utf8":
        return enc_utf8(v)
    if tname == "i32":
        return enc_int(v, 4, True)
    if tname == "i64":
        return enc_int(v, 8, True)
    if tname == "u32":
        return enc_int(v, 4, False)
    if tname == "u64":
        return enc_int(v, 8, False)
    if tname == "f32":
        return enc_f32(v)
    if tname == "f64":
        return enc_f64(v)
    if tname == "time":
        return enc_time(v)
    if tname == "addr":
        return enc_address(v)
    raise RefError(f"no scalar encoder for {tname}")


def dec_value(tname, p):
    if tname in ("octets", "raw"):
        return p
    if tname == "utf8":
        return p.decode("utf-8")
    if tname in ("i32", "i64", "u32", "u64"):
        n = 4 if tname.endswith("32") else 8
        if len(p) != n:
            raise RefError("wrong integer size")
        return int.from_bytes(p, "big", signed=tname[0] == "i")
    if tname == "f32":
        if len(p) != 4:
            raise RefError("wrong float size")
        return bits_to_float(int.from_bytes(p, "big"), 8, 23)
    if tname == "f64":
        if len(p) != 8:
            raise RefError("wrong float size")
        return bits_to_float(int.from_bytes(p, "big"), 11, 52)
    if tname == "time":
        return dec_time(p)
    if tname == "addr":
        return dec_address(p)
    raise RefError(f"no scalar decoder for {tname}")


# ------------------------------------------------------------------ helpers for building frames
def u32(code, v, flags=FLAG_M, vendor=0):
    return enc_avp(code, v.to_bytes(4, "big"), flags, vendor)


def octets(code, b, flags=FLAG_M, vendor=0):
    return enc_avp(code, b, flags, vendor)


def utf8(code, s, flags=FLAG_M, vendor=0):
    return enc_avp(code, s.encode(), flags, vendor)


def addr(code, text, flags=FLAG_M, vendor=0):
    return enc_avp(code, enc_address(text), flags, vendor)


def grouped(code, children, flags=FLAG_M, vendor=0):
    return enc_avp(code, b"".join(children), flags, vendor)
