"""Event interpreter for E3/E5: applies environment events to a NodeWorld, keeps the
environment's own ground truth, computes the canonical state key.

Events are small tuples (picklable, printable):
  ("accept",)                      new inbound TCP connection
  ("m", c, name)                   deliver message `name` of the menu on environment socket c
  ("b", c, name1, name2)           two messages in one TCP segment
  ("tick", n)                      advance the virtual clock n seconds
  ("eof", c) / ("rst", c)          orderly close / reset by the peer
  ("plan", outcome)                answer to the node's next connect(): ok|inprogress|refused
  ("resolve", c, ok)               finish an in-progress connect
  ("ans", j) / ("ans2", j)         application answers recorded request j (again)
  ("send", app, realmkey)          an application thread calls send_request
  ("stop", force)                  a thread calls node.stop()
"""
from __future__ import annotations

from . import env, refcodec as rc, simkernel as sk

R, P, E, T = 0x80, 0x40, 0x20, 0x10


def _canon(x, depth=0):
    """Canonical, hashable rendering of a private container of the node for the state key; total (never raises) so that a change of
    representation in the code under test cannot abort the search."""
    try:
        if isinstance(x, dict):
            return tuple(sorted(((repr(k), _canon(v, depth + 1)) for k, v in x.items()), key=repr))
        if isinstance(x, (list, tuple)) or type(x).__name__ == "deque":
            return tuple(_canon(v, depth + 1) for v in x)
        if isinstance(x, (set, frozenset)):
            return tuple(sorted((_canon(v, depth + 1) for v in x), key=repr))
        if isinstance(x, (int, str, bytes, float, bool)) or x is None:
            return x
        if depth < 3 and hasattr(x, "__dict__"):
            return (type(x).__name__, _canon(vars(x), depth + 1))
        if depth < 3 and hasattr(x, "__iter__"):
            return (type(x).__name__, tuple(_canon(v, depth + 1) for v in x))
    except Exception:
        pass
    return type(x).__name__


class Sock:
    """Environment-side knowledge about one connection."""

    def __init__(self, fs, kind, idx):
        self.fs = fs                # FakeSocket
        self.kind = kind            # accepted | dialled
        self.idx = idx
        self.host = None            # identity the environment used on this connection
        self.cer_sent = False
        self.cea_sent = False
        self.cer_variant = None
        self.cea_variant = None
        self.env_closed = False     # eof/reset injected
        self.out = []               # frames the node wrote (refcodec Frame)
        self.nreq = 0               # requests the environment sent on it
        self.inreq = []             # (Frame) requests sent by env
        self.answered_out = set()   # indexes into out (node requests) the env has answered


class Scenario:
    def __init__(self, cfg, chooser=None, rand_plan=None, max_socks=2, start_plan=None, app_timeout=2):
        self.cfg = cfg
        self.max_socks = max_socks
        self.app_timeout = app_timeout
        self.nw = None
        self.chooser = chooser
        self.rand_plan = rand_plan
        self.start_plan = list(start_plan or [])
        self.socks: list[Sock] = []
        self.send_results = []      # outcomes of ("send", ...) events
        self.answer_results = []    # outcomes of ("ans", j)
        self.stop_thread = None

    # ------------------------------------------------------------------ life-cycle
    def start(self):
        self.nw = env.NodeWorld(self.cfg, chooser=self.chooser, rand_plan=self.rand_plan, start=False)
        self.nw.world.connect_plan.extend(self.start_plan)
        self.nw.start_node()
        self.nw.world.run()
        self.sync()
        return self.nw

    def close(self):
        if self.nw is not None:
            self.nw.close()

    def sync(self):
        """Discover dialled sockets and collect new frames the node wrote."""
        w = self.nw.world
        known = {s.fs for s in self.socks}
        for fs in w.socks:
            if fs.kind == "dialled" and fs not in known and not (fs.closed and not fs.conn_done and not fs.connecting):
                # (a synchronously refused connect is over before the environment could ever use the socket)
                s = Sock(fs, "dialled", len(self.socks))
                pn = fs.peer_name
                for p, pc in zip(self.nw.peers, self.cfg.get("peers", [])):
                    if pc.get("ips") and pn and pc["ips"][0] == pn[0]:
                        s.host = pc["name"]
                self.socks.append(s)
        for s in self.socks:
            s.out += self.nw.frames(s.fs)

    def sock(self, c):
        if c >= len(self.socks):
            return None
        s = self.socks[c]
        if s.fs.closed or s.env_closed:
            return None
        return s

    # ------------------------------------------------------------------ events
    def apply(self, ev):
        """Apply one event and run to quiescence.  Returns False if the event is not enabled."""
        nw = self.nw
        kind = ev[0]
        if kind == "accept":
            if len(self.socks) >= self.max_socks or not nw.world.listeners or nw.world.listeners[0].closed:
                return False
            k = len(self.socks)
            fs = nw.accept(ip=f"10.0.{k // 250}.{2 + k % 250}")
            self.socks.append(Sock(fs, "accepted", len(self.socks)))
        elif kind == "m" or kind == "b":
            s = self.sock(ev[1])
            if s is None or (s.fs.connecting and (not s.fs.conn_done or s.fs.so_error)):
                return False        # no data can arrive on a socket whose connect has not completed
            if getattr(s, "frags", None):
                return False        # a fragmented message is still trickling in on this socket
            data = b""
            for name in ev[2:]:
                d = self.message(s, name)
                if d is None:
                    return False
                data += d
            nw.deliver(s.fs, data)
        elif kind == "seq":
            # ("seq", ev1, ev2, ...): several events as one step of a history (e.g. "one second passes, then a message arrives")
            for sub in ev[1:]:
                if not self.apply(tuple(sub)):
                    return False
            return True
        elif kind == "x":
            # ("x", c1, name1, c2, name2): two connections receive a message in the same instant (one select round sees both)
            s1, s2 = self.sock(ev[1]), self.sock(ev[3])
            if s1 is None or s2 is None or s1 is s2:
                return False
            for s in (s1, s2):
                if (s.fs.connecting and (not s.fs.conn_done or s.fs.so_error)) or getattr(s, "frags", None):
                    return False
            d1 = self.message(s1, ev[2])
            if d1 is None:
                return False
            d2 = self.message(s2, ev[4])
            if d2 is None:
                # (message() may have advanced s1's counters: a history containing this event is simply not enabled - harmless,
                # the same call sequence is repeated on every replay)
                return False
            nw.deliver(s1.fs, d1, run=False)
            nw.deliver(s2.fs, d2)
        elif kind == "mt":
            # ("mt", c, name, n): the message reaches the node's socket in the very instant in which n further seconds have passed:
            # the I/O thread finds the socket readable and its timers due in the same pass (and, for a message larger than one
            # recv(), in several consecutive passes)
            s = self.sock(ev[1])
            if s is None or (s.fs.connecting and (not s.fs.conn_done or s.fs.so_error)) or getattr(s, "frags", None):
                return False
            d = self.message(s, ev[2])
            if d is None:
                return False
            nw.deliver(s.fs, d, run=False)
            nw.tick(ev[3])
        elif kind == "xn":
            # ("xn", c1, name1, n, c2, name2): connection c1 receives n messages in one segment and connection c2 one message in the
            # same instant - the node has n answers to write (n wake-up requests from c1's writer) next to whatever c2's message causes
            s1, s2 = self.sock(ev[1]), self.sock(ev[4])
            if s1 is None or s2 is None or s1 is s2:
                return False
            for s in (s1, s2):
                if (s.fs.connecting and (not s.fs.conn_done or s.fs.so_error)) or getattr(s, "frags", None):
                    return False
            data = b""
            for _ in range(ev[3]):
                d1 = self.message(s1, ev[2])
                if d1 is None:
                    return False
                data += d1
            d2 = self.message(s2, ev[5])
            if d2 is None:
                return False
            nw.deliver(s1.fs, data, run=False)
            nw.deliver(s2.fs, d2)
        elif kind == "mcut":
            # ("mcut", c, name1, name2): one read holds message 1 complete and the first 28 bytes of message 2 (its header and the start of
            # its body); the rest of message 2 arrives with the next "mcut" event on that socket
            s = self.sock(ev[1])
            if s is None or (s.fs.connecting and (not s.fs.conn_done or s.fs.so_error)):
                return False
            if not getattr(s, "frags", None):
                d1 = self.message(s, ev[2])
                if d1 is None:
                    return False
                d2 = self.message(s, ev[3])
                if d2 is None:
                    return False
                s.frags = [d1 + d2[:28], d2[28:]]
            nw.deliver(s.fs, s.frags.pop(0))
        elif kind in ("mfrag", "mtiny"):
            # deliver the next third of message ev[2] on socket ev[1] (a message trickling in over several reads);
            # "mtiny": the first read carries 12 bytes only (less than a header), the second the rest
            s = self.sock(ev[1])
            if s is None or (s.fs.connecting and (not s.fs.conn_done or s.fs.so_error)):
                return False
            if not getattr(s, "frags", None):
                d = self.message(s, ev[2])
                if d is None:
                    return False
                k = max(1, len(d) // 3)
                s.frags = [d[:k], d[k:2 * k], d[2 * k:]] if kind == "mfrag" else [d[:12], d[12:]]
            nw.deliver(s.fs, s.frags.pop(0))
        elif kind == "tick":
            nw.tick(ev[1])
        elif kind == "eof" or kind == "rst":
            s = self.sock(ev[1])
            if s is None:
                return False
            s.env_closed = True
            (nw.eof if kind == "eof" else nw.reset)(s.fs)
        elif kind == "wrerr":
            # the next send() on socket ev[1] fails hard (EPIPE): the peer is gone but no FIN/RST has been seen yet
            s = self.sock(ev[1])
            if s is None or s.fs.send_plan or (s.fs.connecting and not s.fs.conn_done):
                return False
            import errno as _errno
            s.fs.send_plan.append(-_errno.EPIPE)
            nw.world.obs("env_write_error", s.fs.sid)
        elif kind == "plan":
            if nw.world.connect_plan:
                return False
            nw.world.connect_plan.append(ev[1])
        elif kind == "resolve":
            s = self.sock(ev[1])
            if s is None or not s.fs.connecting or s.fs.conn_done:
                return False
            s.fs.resolve_connect(ev[2])
            nw.world.obs("env_resolve", s.fs.sid, ev[2])
            nw.run()
        elif kind in ("ans", "ans2", "ansnr"):
            j = ev[1]
            if j >= len(nw.requests):
                return False
            done = [r for r in self.answer_results if r[0] == j]
            if kind in ("ans", "ansnr") and done:
                return False
            if kind == "ans2" and not done:
                return False
            app, msg = nw.requests[j]
            before = {s.idx: len(s.fs.sent) for s in self.socks}
            try:
                # "ansnr": the application's answer carries no Result-Code AVP
                app.send_answer(app.generate_answer(msg, result_code=2001 if kind != "ansnr" else None))
                res = "sent"
            except Exception as e:
                res = type(e).__name__
            nw.run()
            self.answer_results.append((j, res, msg.header.hop_by_hop_identifier, msg.header.end_to_end_identifier))
            nw.world.obs("env_answer", j, res)
        elif kind == "send":
            self.spawn_send(ev[1], ev[2])
            nw.run()
        elif kind == "stop":
            if self.stop_thread is not None:
                return False
            force = ev[1]
            wt = ev[2] if len(ev) > 2 else 3
            nw.world.obs("env_stop", force, wt)

            def stopper():
                try:
                    nw.node.stop(wait_timeout=wt, force=force)
                    nw.world.obs("stop_returned")
                except Exception as e:
                    nw.world.obs("stop_raised", repr(e))
            self.stop_thread = sk.spawn(stopper, "stopper")
            nw.run()
        else:
            raise sk.HarnessError(f"unknown event {ev}")
        self.sync()
        return True

    def spawn_send(self, app_i, realmkey):
        nw = self.nw
        from diameter.message.commands import AccountingRequest, CreditControlRequest
        app = nw.apps[app_i]
        dest_host = None
        if ">" in realmkey:         # "<realm key>><k>": the request also carries Destination-Host = configured peer k
            realmkey, k = realmkey.split(">")
            dest_host = self.cfg["peers"][int(k)]["name"]
        realm = {"own": env.NODE_REALM, "r2": "realm2.example", "r3": "realm3.example", "foreign": "nowhere.example"}[realmkey]
        n = len(self.send_results)
        self.send_results.append([app_i, realmkey, "pending", None])

        def caller():
            if app.is_acct_application:
                m = AccountingRequest()
                m.accounting_record_type = 1
                m.accounting_record_number = n
                m.acct_application_id = app.application_id
            else:
                m = CreditControlRequest()
                m.auth_application_id = app.application_id
                m.service_context_id = "ctx"
                m.cc_request_type = 1
                m.cc_request_number = n
            m.session_id = f"out;{n}"
            m.origin_host = nw.node.origin_host.encode()
            m.origin_realm = nw.node.realm_name.encode()
            m.destination_realm = realm.encode()
            if dest_host is not None:
                m.destination_host = dest_host.encode()
            try:
                a = app.send_request(m, timeout=self.app_timeout)
                self.send_results[n][2] = "answer"
                self.send_results[n][3] = (a.header.hop_by_hop_identifier, a.header.end_to_end_identifier)
            except Exception as e:
                self.send_results[n][2] = type(e).__name__
            self.send_results[n].append((m.header.hop_by_hop_identifier, m.header.end_to_end_identifier))
        sk.spawn(caller, f"caller{n}")

    # ------------------------------------------------------------------ message menu
    def peer_host(self, s):
        return s.host or self.cfg["peers"][0]["name"]

    def message(self, s, name):
        """Bytes of menu message `name` for socket s, or None when it is not enabled there."""
        cfg = self.cfg
        host = self.peer_host(s)
        napps_acct = tuple(a["id"] for a in cfg.get("apps", []) if a.get("acct"))
        napps_auth = tuple(a["id"] for a in cfg.get("apps", []) if a.get("auth"))
        if name.startswith("cer"):
            if s.kind != "accepted" or s.cer_sent:
                return None         # at most one CER per connection (RFC 6733 5.3); none on dialled ones
            s.cer_sent = True
            hbh, e2e = 0x100 + s.idx, 0x200 + s.idx
            var = name[4:]
            who = 0                             # "<variant>@<i>": the variant in the name of configured peer i instead of peer 0
            if "@" in var:
                var, w = var.split("@")
                who = int(w)
                if who >= len(cfg["peers"]):
                    s.cer_sent = False
                    return None
            s.cer_variant = var
            if var.startswith("p"):             # cer_p<i>: known peer i with the node's applications
                i = int(var[1:])
                if i >= len(cfg["peers"]):
                    return None
                s.host = cfg["peers"][i]["name"]
                return env.cer(host=s.host, acct=napps_acct or (), auth=napps_auth or (), hbh=hbh, e2e=e2e, ip=s.fs.peer_name[0])
            if var.startswith("capsp"):         # known peer i spelling its Origin-Host in capitals (DiameterIdentity is case-insensitive)
                i = int(var[5:])
                if i >= len(cfg["peers"]):
                    s.cer_sent = False
                    return None
                s.host = cfg["peers"][i]["name"]
                s.cer_variant = f"p{i}"
                return env.cer(host=s.host.upper(), acct=napps_acct or (), auth=napps_auth or (), hbh=hbh, e2e=e2e, ip=s.fs.peer_name[0])
            if var.startswith("v6p"):           # known peer, two Host-IP-Address AVPs (IPv4 + IPv6), Origin-State-Id, Supported-Vendor-Id
                i = int(var[3:])
                if i >= len(cfg["peers"]):
                    return None
                s.host = cfg["peers"][i]["name"]
                return env.cer(host=s.host, acct=napps_acct or (), auth=napps_auth or (), hbh=hbh, e2e=e2e, ip=s.fs.peer_name[0],
                               extra=[rc.addr(257, "2001:db8::7"), rc.u32(278, 77), rc.u32(265, 10415), rc.u32(265, 193), rc.u32(267, 3)])
            if var == "unknown":
                s.host = "stranger.example.org"
                return env.cer(host=s.host, acct=napps_acct or (env.APP_ACCT,), auth=napps_auth, hbh=hbh, e2e=e2e)
            s.host = cfg["peers"][who]["name"]
            if var == "vsa":        # the shared application is only offered inside Vendor-Specific-Application-Id
                vsas = [rc.grouped(260, [rc.u32(266, 10415), rc.u32(259, a)]) for a in napps_acct] + \
                       [rc.grouped(260, [rc.u32(266, 10415), rc.u32(258, a)]) for a in napps_auth]
                return env.cer(host=s.host, acct=(), auth=(), hbh=hbh, e2e=e2e, extra=vsas)
            if var == "vsa_acct":   # only the accounting applications, only inside Vendor-Specific-Application-Id
                vsas = [rc.grouped(260, [rc.u32(266, 10415), rc.u32(259, a)]) for a in napps_acct]
                return env.cer(host=s.host, acct=(), auth=(), hbh=hbh, e2e=e2e, extra=vsas)
            if var == "vsa_cross":  # the node's auth ids offered as vendor-specific *acct* ids and vice versa: nothing shared
                vsas = [rc.grouped(260, [rc.u32(266, 10415), rc.u32(259, a)]) for a in napps_auth] + \
                       [rc.grouped(260, [rc.u32(266, 10415), rc.u32(258, a)]) for a in napps_acct]
                return env.cer(host=s.host, acct=(), auth=(), hbh=hbh, e2e=e2e, extra=vsas)
            if var == "onlyacct":   # a proper subset of what the node offers: its accounting applications only
                return env.cer(host=s.host, acct=napps_acct, auth=(), hbh=hbh, e2e=e2e)
            if var == "onlyauth":   # ... its authentication applications only
                return env.cer(host=s.host, acct=(), auth=napps_auth, hbh=hbh, e2e=e2e)
            if var == "nocommon":
                return env.cer(host=s.host, acct=(99,), auth=(98,), hbh=hbh, e2e=e2e)
            if var == "crosskind":      # the node's auth ids offered as acct ids and vice versa: nothing is shared
                return env.cer(host=s.host, acct=napps_auth + (97,), auth=napps_acct + (96,), hbh=hbh, e2e=e2e)
            if var == "relay":
                return env.cer(host=s.host, acct=(), auth=(0xffffffff,), hbh=hbh, e2e=e2e)
            if var == "nohost":
                return env.cer(host=s.host, acct=napps_acct, auth=napps_auth, hbh=hbh, e2e=e2e, with_origin_host=False)
            if var == "badip":      # acceptable CER whose Host-IP-Address cannot be decoded (IPv4 family, 3 octets)
                good = env.cer(host=s.host, acct=napps_acct, auth=napps_auth, hbh=hbh, e2e=e2e)
                f = rc.Frame(good)
                avps = [rc.enc_avp(c, (b"\x00\x01\x0a\x00\x00" if c == 257 else p), fl, v) for c, fl, v, p in f.avps]
                return rc.enc_msg(env.CMD_CER, R, 0, hbh, e2e, avps)
            raise sk.HarnessError(name)
        if name == "cea_unsolicited":       # a CEA on a connection that never sent a CER
            return env.cea(2001, host=host, hbh=0x9, e2e=0x9)
        if name.startswith("cea"):
            if s.kind != "dialled" or s.cea_sent:
                return None
            cers = [f for f in s.out if f.h.is_request and f.h.code == env.CMD_CER]
            if not cers:
                return None
            s.cea_sent = True
            c = cers[0]
            var = name[4:]
            s.cea_variant = var
            kw = dict(host=host, acct=napps_acct, auth=napps_auth, hbh=c.h.hbh, e2e=c.h.e2e)
            if var == "ok":
                return env.cea(2001, **kw)
            if var == "okcase":     # DiameterIdentity compares case-insensitively: the peer spells its own name in capitals
                return env.cea(2001, **dict(kw, host=host.upper()))
            if var == "3xxx":
                return env.cea(3010, **kw)
            if var == "5xxx":
                return env.cea(5010, **kw)
            if var == "nohost":
                return env.cea(2001, with_origin_host=False, **kw)
            if var == "norc":
                return env.cea(2001, with_result=False, **kw)
            raise sk.HarnessError(name)
        s.nreq += 1
        hbh, e2e = 0x1000 * (s.idx + 1) + s.nreq, 0x2000 * (s.idx + 1) + s.nreq
        if name == "badlen":
            # a 20-byte header announcing a message length of 5: the connection can only be closed
            s.nreq -= 1
            self.nw.world.obs("env_garbage", s.fs.sid)      # ground truth: from this instant on the connection is lost, whoever notices
            return rc.enc_header(1, 5, R, env.CMD_DWR, 0, hbh, e2e)
        if name == "dwr":
            d = env.dwr(host=host, hbh=hbh, e2e=e2e)
        elif name == "dwr_e2e0":
            d = env.dwr(host=host, hbh=hbh, e2e=0)
        elif name == "dwr_hbh0":
            d = env.dwr(host=host, hbh=0, e2e=e2e)
        elif name == "req_e2e0":
            d = env.acr(host=host, hbh=hbh, e2e=0)
        elif name == "ans_T_replay":
            # an *answer* carrying the T flag and the identifiers of a request the node has already answered
            s.nreq -= 1
            done = [f for f in s.inreq if f.h.code == env.CMD_DWR]
            if not done:
                return None
            f = done[-1]
            return rc.enc_msg(env.CMD_DWR, T, 0, f.h.hbh, f.h.e2e, [rc.u32(268, 2001), rc.octets(264, host.encode()), rc.octets(296, b"example.org")])
        elif name == "dpr":
            d = env.dpr(host=host, hbh=hbh, e2e=e2e)
        elif name in ("dwa", "dwa_nohost", "dwa_norc", "dpa", "ans", "ans_unknown", "ans_dup", "ans_nohost", "ans_norc"):
            s.nreq -= 1
            return self.env_answer(s, name, host)
        elif name == "req":
            d = env.acr(host=host, hbh=hbh, e2e=e2e) if napps_acct else env.ccr(host=host, hbh=hbh, e2e=e2e)
        elif name.startswith("rq:"):
            # rq:<header application id>:<realm key>[:missing][:T]  (an ACR whatever the application id)
            parts = name.split(":")
            realm = {"own": env.NODE_REALM, "r2": "realm2.example", "r3": "realm3.example", "foreign": "nowhere.example"}[parts[2]]
            flags = R | P | (T if "T" in parts[3:] else 0)
            # "alias": the required AVP is missing, but an AVP with the same code under a foreign vendor is present
            extra = [rc.enc_avp(485, b"\x00\x00\x00\x07", 0x80, 99_999)] if "alias" in parts[3:] else []
            d = env.acr(host=host, hbh=hbh, e2e=e2e, app=int(parts[1]), dest_realm=realm, flags=flags,
                        missing=(485,) if ("missing" in parts[3:] or "alias" in parts[3:]) else (), extra=extra)
        elif name.startswith("rt:"):
            # rt:<origin a|b>:<T 0|1>:<end-to-end id from a small pool>   (requests relayed for two origin hosts)
            parts = name.split(":")
            # p: the peer itself is the origin; c: an origin host that spells its name with capital letters
            origin = {"a": "origin-a.example.org", "b": "origin-b.example.org", "p": host, "c": "Origin-C.Example.ORG"}[parts[1]]
            d = env.acr(host=origin, hbh=hbh, e2e=0x7000 + int(parts[3]), flags=R | P | (T if parts[2] == "1" else 0))
        elif name.startswith("rz:"):
            # rz:<origin a|b>:<T 0|1>   like rt: with the end-to-end identifier 0 (a legal value)
            parts = name.split(":")
            origin = {"a": "origin-a.example.org", "b": "origin-b.example.org"}[parts[1]]
            d = env.acr(host=origin, hbh=hbh, e2e=0, flags=R | P | (T if parts[2] == "1" else 0))
        elif name.startswith("rx:") or name.startswith("rx1:"):
            # rx:<origin a|b|p>:<T 0|1>:<k>   hop-by-hop AND end-to-end id from one pool: requests of different origin hosts arriving on
            # different connections may carry the same identifier pair (hop-by-hop ids are unique per connection only, end-to-end ids
            # per origin host only).  Not enabled while a request with this hop-by-hop id is unanswered on this connection.
            parts = name.split(":")
            origin = {"a": "origin-a.example.org", "b": "origin-b.example.org", "p": host}[parts[1]]
            hb = 0x5000 + int(parts[3])
            answered = {(f.h.hbh, f.h.e2e) for f in s.out if not f.h.is_request}
            if any(f.h.hbh == hb and ((f.h.hbh, f.h.e2e) not in answered or name.startswith("rx1:")) for f in s.inreq):
                s.nreq -= 1         # ("rx1:": a pair is used once per connection, so that requests of one connection stay distinguishable)
                return None
            d = env.acr(host=origin, hbh=hb, e2e=0x7000 + int(parts[3]), flags=R | P | (T if parts[2] == "1" else 0))
        elif name.startswith("rh0:"):
            # hop-by-hop id from the pool, end-to-end id 0 (a legal value)
            hb = 0x4000 + int(name[4:])
            answered = {(f.h.hbh, f.h.e2e) for f in s.out if not f.h.is_request}
            if any(f.h.hbh == hb and (f.h.hbh, f.h.e2e) not in answered for f in s.inreq) or any(f.h.e2e == 0 for x in self.socks for f in x.inreq):
                s.nreq -= 1
                return None
            d = env.acr(host=host, hbh=hb, e2e=0)
        elif name.startswith("rh:"):
            # rh:<hop-by-hop id from a pool>  - the end-to-end id stays unique so that frames can be attributed.
            # Hop-by-hop ids of in-flight requests are connection-unique: not enabled while one with this id is unanswered here.
            hb = 0x4000 + int(name[3:])
            answered = {(f.h.hbh, f.h.e2e) for f in s.out if not f.h.is_request}
            if any(f.h.hbh == hb and (f.h.hbh, f.h.e2e) not in answered for f in s.inreq):
                s.nreq -= 1
                return None
            d = env.acr(host=host, hbh=hb, e2e=e2e)
        elif name == "req_noP":     # request bit only (not proxiable), version field 2
            d0 = env.acr(host=host, hbh=hbh, e2e=e2e, flags=R) if napps_acct else env.ccr(host=host, hbh=hbh, e2e=e2e, flags=R)
            d = bytes([2]) + d0[1:]
        elif name == "req_E":       # request with the error bit set by a confused peer
            d = env.acr(host=host, hbh=hbh, e2e=e2e, flags=R | P | E) if napps_acct else env.ccr(host=host, hbh=hbh, e2e=e2e, flags=R | P | E)
        elif name == "req_big":     # larger than one recv(2048): arrives over several reads
            d = env.acr(host=host, hbh=hbh, e2e=e2e, extra=[rc.octets(25, bytes((i * 7) & 0xff for i in range(3000)))]) if napps_acct else \
                env.ccr(host=host, hbh=hbh, e2e=e2e)
        elif name == "req_auth":
            d = env.ccr(host=host, hbh=hbh, e2e=e2e)
        elif name == "req_acct":
            d = env.acr(host=host, hbh=hbh, e2e=e2e)
        elif name == "req_unkapp":
            d = env.acr(host=host, hbh=hbh, e2e=e2e, app=env.APP_OTHER)
        elif name == "req_foreign":
            d = env.acr(host=host, hbh=hbh, e2e=e2e, dest_realm="nowhere.example")
        elif name == "req_r2":
            d = env.acr(host=host, hbh=hbh, e2e=e2e, dest_realm="realm2.example")
        elif name == "req_missing":
            d = env.acr(host=host, hbh=hbh, e2e=e2e, missing=(480, 263))
        elif name == "req_T":
            d = env.acr(host=host, hbh=hbh, e2e=e2e, flags=R | P | T)
        elif name == "untyped":
            d = env.untyped_request(283, app=(napps_acct + napps_auth + (env.APP_ACCT,))[0], hbh=hbh, e2e=e2e, host=host)
        elif name == "unkcmd":
            d = env.untyped_request(8_000_001, app=(napps_acct + napps_auth + (env.APP_ACCT,))[0], hbh=hbh, e2e=e2e, host=host)
        else:
            raise sk.HarnessError(f"unknown message {name}")
        s.inreq.append(rc.Frame(d))
        return d

    def env_answer(self, s, name, host):
        """Answers the environment sends.  Where the node has a matching request outstanding the
        identifiers are taken from it (an *expected* answer), otherwise from nowhere."""
        def outstanding(code):
            for i, f in enumerate(s.out):
                if f.h.is_request and f.h.code == code and i not in s.answered_out:
                    return i, f
            return None, None
        if name.startswith("dwa"):
            i, f = outstanding(env.CMD_DWR)
            hbh, e2e = (f.h.hbh, f.h.e2e) if f else (0x77, 0x78)
            if f:
                s.answered_out.add(i)
            return env.dwa(host=host, hbh=hbh, e2e=e2e, with_origin_host=name != "dwa_nohost", with_result=name != "dwa_norc")
        if name == "dpa":
            i, f = outstanding(env.CMD_DPR)
            hbh, e2e = (f.h.hbh, f.h.e2e) if f else (0x79, 0x7a)
            if f:
                s.answered_out.add(i)
            return env.dpa(host=host, hbh=hbh, e2e=e2e)
        app_reqs = [(i, f) for i, f in enumerate(s.out) if f.h.is_request and f.h.code not in (env.CMD_CER, env.CMD_DWR, env.CMD_DPR)]
        if name == "ans":
            for i, f in app_reqs:
                if i not in s.answered_out:
                    s.answered_out.add(i)
                    return env.aca(host=host, app=f.h.app, hbh=f.h.hbh, e2e=f.h.e2e) if f.h.code == env.CMD_ACR else \
                        rc.enc_msg(f.h.code, P, f.h.app, f.h.hbh, f.h.e2e, [rc.utf8(263, "s"), rc.u32(268, 2001), rc.octets(264, host.encode(), 0),
                                                                           rc.octets(296, b"example.org", 0), rc.u32(258, f.h.app), rc.u32(416, 1), rc.u32(415, 0)])
            return None
        if name == "ans_dup":
            done = [(i, f) for i, f in app_reqs if i in s.answered_out]
            if not done:
                return None
            i, f = done[-1]
            return env.aca(host=host, app=f.h.app, hbh=f.h.hbh, e2e=f.h.e2e)
        if name == "ans_unknown":
            s.unk = getattr(s, "unk", 0) + 1      # fresh identifiers every time: nobody ever waited for them
            return env.aca(host=host, hbh=0x5555_0000 + s.unk, e2e=0x6666_0000 + s.unk)
        if name == "ans_nohost":
            return env.aca(host=host, hbh=0x5556, e2e=0x6667, with_origin_host=False)
        if name == "ans_norc":
            return env.aca(host=host, hbh=0x5557, e2e=0x6668, with_result=False)
        raise sk.HarnessError(name)

    # ------------------------------------------------------------------ canonical key
    def key(self, cap=None):
        nw = self.nw
        node = nw.node
        now = int(nw.world.now)
        ncfg = self.cfg.get("node", {})
        if cap is None:
            tos = [ncfg.get(k, 4) for k in ("cer_timeout", "cea_timeout", "idle_timeout", "dwa_timeout")]
            for pc in self.cfg.get("peers", []):
                tos += [pc.get(k) or 0 for k in ("cer_timeout", "cea_timeout", "idle_timeout", "dwa_timeout", "reconnect_wait")]
            cap = max(tos) + ncfg.get("wakeup", 1) + 1

        def age(t):
            return -1 if not t else min(cap, now - int(t))
        conns = []
        for ident, c in node.connections.items():
            fs = node.peer_sockets.get(ident)
            conns.append((c.is_sender, c.state, c.node_name, c.host_identity, age(getattr(c, "_last_read", 0)),
                          age(getattr(c, "_last_dwr", 0)), len(c.write_buffer), len(getattr(c, "_read_buffer", b"")),
                          fs.sid if fs is not None else -1,
                          tuple(sorted(c.auth_application_ids)), tuple(sorted(c.acct_application_ids))))
        conns.sort(key=repr)
        peers = []
        for name, p in sorted(node.peers.items()):
            pc = p.connection
            peers.append((name, None if pc is None else (pc.state, pc.ident in node.connections), p.disconnect_reason,
                          age(p.last_disconnect)))
        socks = tuple((s.kind, s.fs.closed, s.env_closed, s.cer_sent, s.cea_sent, s.host, len(s.fs.rbuf), s.fs.connecting and not s.fs.conn_done,
                       tuple(p for p in s.fs.send_plan if isinstance(p, int)),
                       tuple(sorted(s.answered_out))) for s in self.socks)
        waiting = tuple(sorted((tuple(sorted(map(repr, m))),) for h, m in getattr(node, "_peer_waiting_answer", {}).items() if m))
        appw = tuple(sorted(getattr(node, "_app_waiting_answer", {})))
        sent = _canon(getattr(node, "_sent_answers", {}))      # (whatever container a change may have put there)
        apps = tuple((a.is_ready.is_set(), tuple(sorted(getattr(a, "_answer_waiting", {})))) for a in nw.apps)
        live = tuple(sorted((t.kind or t.name) for t in nw.world.live_threads()))
        return (tuple(conns), tuple(peers), socks, waiting, appw, sent, apps, live, getattr(node, "_stopping", False),
                tuple(nw.world.connect_plan),
                tuple(r[1] for r in self.answer_results), tuple(tuple(r[:3]) for r in self.send_results),
                len(nw.requests))
