"""E4: stateless depth-first search over thread schedules with iterative preemption bounding.

An execution is determined by the list of choices taken at *branching* scheduling points
(points inside the explored window at which more than one thread is enabled).  The
canonical order of enabled threads is: the thread that ran last if it is still enabled,
then ascending thread id; choice 0 is therefore "no preemption".  Choosing another thread
while the last one is still enabled costs one preemption; switching at a blocking point
is free.  See DESIGN.md 2.3.
"""
from __future__ import annotations

from . import simkernel as sk
from . import common


class Divergence(sk.HarnessError):
    pass


class Chooser:
    def __init__(self, prefix=()):
        self.prefix = list(prefix)
        self.i = 0
        self.points = []        # (n_enabled, last_still_enabled, names) per branching point
        self.choices = []
        self.window = False

    def __call__(self, world, en):
        if not self.window or len(en) == 1:
            return world.default_choice(en)
        last = world.last
        cur = last in en
        en = sorted(en, key=lambda t: (t is not last, t.tid))
        if self.i < len(self.prefix):
            c, n_expected = self.prefix[self.i]
            if n_expected != len(en):
                raise Divergence(f"replay divergence at point {self.i}: {n_expected} enabled recorded, "
                                 f"{len(en)} now ({[t.name for t in en]})")
        else:
            c = 0
        self.points.append((len(en), cur))
        self.choices.append((c, len(en)))
        self.i += 1
        return en[c]


def children(choices, points, start, bound):
    """Alternatives to explore after an execution that replayed choices[:start].

    bound = p: at most p preemptions, switches at blocking points are free and unbounded (context bounding).
    bound = (p, f): additionally at most f non-default choices at blocking points (delay bounding of the free switches;
    for scenarios in which many threads wake up together and the orders of their wake-ups would otherwise multiply)."""
    out = []
    fbound = None
    if isinstance(bound, tuple):
        bound, fbound = bound
    pre = 0
    free = 0
    costs = []
    for i, (n, cur) in enumerate(points):
        costs.append((pre, free))
        if choices[i][0] != 0:
            if cur:
                pre += 1
            else:
                free += 1
    for i in range(start, len(points)):
        n, cur = points[i]
        p, f = costs[i]
        if cur:
            if p + 1 > bound:
                continue
        elif fbound is not None and f + 1 > fbound:
            continue
        for alt in range(1, n):
            out.append(choices[:i] + [(alt, n)])
    return out


def _dfs(args):
    execute, check, root, bound, cap = args[:5]
    deadline = args[5] if len(args) > 5 else None
    import time as _time
    if deadline is not None and _time.time() > deadline:
        return 0, [], {}, 0, True
    stack = [root]
    n = 0
    bad = []
    outcomes = {}
    maxpts = 0
    capped = False
    while stack:
        prefix = stack.pop()
        obs, ch = execute(prefix)
        n += 1
        maxpts = max(maxpts, len(ch.points))
        k = common.digest(obs)
        outcomes[k] = outcomes.get(k, 0) + 1
        for v in check(obs):
            if len(bad) < 20:
                bad.append((v, [c for c, _ in ch.choices]))
        if (cap and n >= cap) or (deadline is not None and _time.time() > deadline):
            capped = bool(stack) or bool(children(ch.choices, ch.points, len(prefix), bound))
            break
        stack.extend(children(ch.choices, ch.points, len(prefix), bound))
    return n, bad, outcomes, maxpts, capped


def _root(args):
    execute, check, bound = args
    obs, ch = execute([])
    return obs, list(check(obs)), ch.choices, ch.points


def explore_many(tasks, cap_per_subtree=0, time_cap=None):
    """tasks: list of (execute, check, bound).  All roots, then all first-level subtrees of
    all tasks, are spread over the worker pool.  Returns one stats dict per task.
    time_cap (seconds, wall): subtrees not finished by then are abandoned and the task is marked "capped" - the caller
    reports the cap and which lower bound was completed without one."""
    import time as _time
    deadline = _time.time() + time_cap if time_cap else None
    roots = common.pmap(_root, tasks, chunksize=1)
    if tasks:
        # determinism self-test: the first task's default schedule executed again must give the same observation and points
        again = _root(tasks[0]) if common.NPROC <= 1 else common.pmap(_root, [tasks[0]], chunksize=1)[0]
        if (again[0], again[2], again[3]) != (roots[0][0], roots[0][2], roots[0][3]):
            raise sk.HarnessError("determinism self-test failed: the same schedule gave two different executions")
    results = []
    jobs = []
    owner = []
    for ti, ((execute, check, bound), (obs, vs, choices, points)) in enumerate(zip(tasks, roots)):
        res = {"executions": 1, "violations": [(v, []) for v in vs], "outcomes": {common.digest(obs): 1},
               "max_points": len(points), "capped": False, "bound": bound}
        results.append(res)
        for r in children(choices, points, 0, bound):
            jobs.append((execute, check, r, bound, cap_per_subtree, deadline))
            owner.append(ti)
    # biggest subtrees tend to be the ones branching earliest: keep generation order, chunk 1
    for ti, (n, bad, outcomes, maxpts, capped) in zip(owner, common.pmap(_dfs, jobs, chunksize=1)):
        res = results[ti]
        res["executions"] += n
        res["violations"] += bad
        for k, c in outcomes.items():
            res["outcomes"][k] = res["outcomes"].get(k, 0) + c
        res["max_points"] = max(res["max_points"], maxpts)
        res["capped"] = res["capped"] or capped
    return results


def explore(execute, check, bound, cap_per_subtree=0, time_cap=None):
    return explore_many([(execute, check, bound)], cap_per_subtree, time_cap)[0]


def _lower(bound, floor):
    if isinstance(bound, tuple):
        return (min(bound[0], floor), bound[1])
    return min(bound, floor)


def explore_many_capped(tasks, floor, time_cap):
    """Thorough-tier exploration with a stated budget: every task is first explored completely at min(its bound, floor) - the bound
    the quick tier completes - and then at its own bound within time_cap seconds of wall time.  Each result says which bound was
    completed without a cap ("bound_completed") and whether the larger one was cut short ("capped")."""
    low = [(e, c, _lower(b, floor)) for e, c, b in tasks]
    res_low = explore_many(low)
    if all(lb == b for (_, _, lb), (_, _, b) in zip(low, tasks)):
        for r, (_, _, b) in zip(res_low, tasks):
            r["bound_completed"] = b
        return res_low
    res = explore_many(tasks, time_cap=time_cap)
    for r, rl, (_, _, b), (_, _, lb) in zip(res, res_low, tasks, low):
        seen = {(v, tuple(c)) for v, c in r["violations"]}
        r["violations"] += [(v, c) for v, c in rl["violations"] if (v, tuple(c)) not in seen]
        r["executions"] += rl["executions"]
        for k, c in rl["outcomes"].items():
            r["outcomes"].setdefault(k, c)
        r["max_points"] = max(r["max_points"], rl["max_points"])
        r["bound_completed"] = b if not r["capped"] else lb
    return res


def replay_choices(execute, choices):
    """Re-run one recorded schedule.  `choices` are the bare choice indexes a violation was reported with; the
    (choice, number-enabled) prefix the Chooser wants is rebuilt by iterative replay (a divergence is a hard error)."""
    prefix = []
    while True:
        obs, ch = execute(prefix)
        if len(prefix) >= len(choices) or len(ch.choices) <= len(prefix):
            return obs, ch
        i = len(prefix)
        prefix = ch.choices[:i] + [(choices[i], ch.choices[i][1])]
