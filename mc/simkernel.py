"""E2 substrate: deterministic cooperative kernel, virtual clock and fake OS layer.

The unmodified ``diameter.node`` code runs on top of this module.  Every source of
nondeterminism the node reaches through a module global (``threading``, ``time``,
``queue``, ``select``, ``socket``, ``os``, ``random``) is replaced by a shim whose
blocking operations are scheduling points of a single-baton kernel.  A simulated thread
is a real OS thread parked on its own semaphore; exactly one of them (or the driver)
runs at any time.

Nothing here decides a property; the explorers (histbfs, scheddfs, faultenum) and the
monitors do.  See DESIGN.md 2.1 and Appendix A for the semantics reproduced.
"""
from __future__ import annotations

import collections
import errno as _errno
import os as _ros
import queue as _rq
import random as _rrandom
import select as _rselect
import socket as _rsock
import sys
import threading as _rt
import time as _rtime

_real_Thread = _rt.Thread

START_TIME = 1_700_000_000.0      # fixed virtual epoch second (2023-11-14T22:13:20Z)


class HarnessError(Exception):
    """Something is wrong with the harness itself (exit 2), never a verdict."""


class Deadlock(HarnessError):
    pass


class Livelock(HarnessError):
    """The threads keep each other busy at one virtual instant and never reach quiescence."""


class SimKill(BaseException):
    """Raised inside parked threads to unwind them at world teardown."""


class SimSpin(BaseException):
    """Raised by the back-edge budget when a thread loops without a scheduling point."""


class SimThreadState:
    __slots__ = ("name", "sem", "os_thread", "done", "exc", "wait", "wake_at", "tid",
                 "timed_out", "started", "kind", "spun")

    def __repr__(self):
        return f"<T{self.tid} {self.name}>"


WORLD = None        # the current World (one per process at a time)


class World:
    """Kernel + network + clock of one execution."""

    def __init__(self, chooser=None, rand_plan=None):
        global WORLD
        self.now = START_TIME
        self.threads: list[SimThreadState] = []
        self.current: SimThreadState | None = None
        self.driver_sem = _rt.Semaphore(0)
        self.chooser = chooser
        self.last: SimThreadState | None = None
        self.steps = 0
        self.dying = False
        self.points_on = False          # line/call granularity window open?
        self.jumps = 0
        self.jump_limit = 400_000
        self.log: list[tuple] = []      # observation log (append-only)
        # ---- network / os
        self.pipes: dict[int, bytearray] = {}
        self.wfd2r: dict[int, int] = {}
        self.socks: list[FakeSocket] = []
        self.listeners: list[FakeSocket] = []
        self.connect_plan: collections.deque = collections.deque()
        self.urandom_counter = 0
        self.urandom_plan: collections.deque = collections.deque()
        self.rand_plan = collections.deque(rand_plan or [])
        self.rand_counter = 0
        self.on_connect = None          # optional callback(sock) deciding the outcome
        self.probe = None               # optional callable sampled when a socket is created (e.g. "is the node stopping?")
        self._tnow = None
        self._tcalls = 0
        self.socket_fail = 0            # number of upcoming socket() calls that fail with EMFILE
        self.low_kind = None            # see default_choice
        self.step_hooks = {}            # kernel step number -> callable run by the driver just before that step (fault injection)
        WORLD = self

    # ------------------------------------------------------------------ threads
    def spawn(self, target, name):
        st = SimThreadState()
        st.name = name
        st.sem = _rt.Semaphore(0)
        st.done = False
        st.exc = None
        st.wait = None
        st.wake_at = None
        st.tid = len(self.threads)
        st.timed_out = False
        st.started = False
        st.kind = None
        st.spun = False

        def body():
            st.sem.acquire()
            st.started = True
            try:
                if not self.dying:
                    target()
            except SimKill:
                pass
            except SimSpin as e:
                st.spun = True
                st.exc = e
            except BaseException as e:      # noqa: recorded, judged by the checks
                st.exc = e
            st.done = True
            self.current = None
            self.driver_sem.release()

        st.os_thread = _real_Thread(target=body, name=f"sim-{name}", daemon=True)
        self.threads.append(st)
        st.os_thread.start()
        return st

    def enabled(self):
        out = []
        for t in self.threads:
            if t.done:
                continue
            w = t.wait
            if w is None or w() or (t.wake_at is not None and t.wake_at <= self.now):
                out.append(t)
        return out

    def block(self, cond, timeout=None):
        """Scheduling point of the calling simulated thread.

        cond None = pure yield.  Returns True if cond became true, False on timeout.
        The driver may call blocking shims only when they are immediately satisfiable.
        """
        st = self.current
        if st is None:
            if cond is None or cond():
                return True
            raise Deadlock("driver thread would block in a shim operation")
        if self.dying:
            raise SimKill()
        st.wait = cond
        st.wake_at = None if (timeout is None or cond is None) else self.now + max(0.0, timeout)
        self.current = None
        self.driver_sem.release()
        st.sem.acquire()
        if self.dying:
            raise SimKill()
        st.wait = None
        st.wake_at = None
        return True if cond is None else bool(cond())

    def point(self):
        """Fine-grained scheduling point (from sys.monitoring callbacks)."""
        if self.points_on and self.current is not None and not self.dying:
            self.block(None)

    def _run_one(self, st):
        self.current = st
        self.last = st
        self.steps += 1
        self.jumps = 0
        st.sem.release()
        if not self.driver_sem.acquire(timeout=600):
            raise HarnessError(f"thread {st} did not reach a scheduling point within 600 s wall time")

    def default_choice(self, en):
        """Run-to-block scheduling: the running thread continues; when it blocks, the enabled thread with the lowest id runs.
        With `low_kind` set, threads of that kind (e.g. the node's I/O thread) are picked only when nothing else is enabled:
        a second deterministic policy, under which work piles up for that thread instead of being consumed one item at a time."""
        if self.last in en:
            return self.last
        if self.low_kind is not None:
            for t in en:
                if t.kind != self.low_kind:
                    return t
        return en[0]

    def run(self, max_steps=6_000):
        """Run until no thread is enabled (quiescence).  Returns steps taken."""
        n = 0
        while True:
            en = self.enabled()
            if not en:
                return n
            if self.step_hooks:
                h = self.step_hooks.pop(self.steps, None)
                if h is not None:
                    h()
                    continue        # the fault may have changed who is enabled
            st = self.chooser(self, en) if self.chooser else self.default_choice(en)
            self._run_one(st)
            n += 1
            if n > max_steps:
                raise Livelock(f"no quiescence after {max_steps} scheduling steps at virtual time {self.now}")

    def next_deadline(self):
        d = [t.wake_at for t in self.threads if not t.done and t.wake_at is not None]
        return min(d) if d else None

    def advance(self, dt):
        """Advance virtual time by dt, firing timed waits in deadline order."""
        target = self.now + dt
        while True:
            self.run()
            nxt = self.next_deadline()
            if nxt is None or nxt > target:
                break
            if nxt > self.now:
                self.now = nxt
        self.now = target
        self.run()

    def jump(self, dt):
        """Move the clock without running anybody: expired waits become enabled together
        with whatever else is runnable (timer expiry concurrent with other activity)."""
        self.now += dt

    def live_threads(self):
        return [t for t in self.threads if not t.done]

    def shutdown(self):
        """Tear the world down: unwind every parked thread with SimKill and join it."""
        global WORLD
        self.dying = True
        self.points_on = False
        for t in self.threads:
            if not t.done:
                self.current = t
                t.sem.release()
                if not self.driver_sem.acquire(timeout=600):
                    raise HarnessError(f"thread {t} did not unwind at teardown")
        for t in self.threads:
            t.os_thread.join(10)
        self.current = None
        if WORLD is self:
            WORLD = None

    # ------------------------------------------------------------------ fds
    def alloc_fd(self):
        used = {s._fd for s in self.socks if not s.closed and s._fd is not None and not getattr(s, "in_backlog", False)}
        used |= set(self.pipes) | set(self.wfd2r)
        fd = 3
        while fd in used:
            fd += 1
        return fd

    def obs(self, *rec):
        self.log.append((self.now,) + rec)


# ====================================================================== shims
def _W() -> World:
    w = WORLD
    if w is None:
        raise HarnessError("shim used without a World")
    return w


class SimEvent:
    def __init__(self):
        self._f = False

    def is_set(self):
        return self._f

    def set(self):
        self._f = True

    def clear(self):
        self._f = False

    def wait(self, timeout=None):
        if self._f:
            return True
        _W().block(lambda: self._f, timeout)
        return self._f


class SimLock:
    def __init__(self):
        self._held = False
        self.owner = None

    def acquire(self, blocking=True, timeout=-1):
        w = _W()
        if self._held:
            if not blocking:
                return False
            w.block(lambda: not self._held, None if timeout is None or timeout < 0 else timeout)
            if self._held:
                return False
        else:
            # acquiring a free lock is still a scheduling point in fine-grained windows
            w.point()
            if self._held:
                w.block(lambda: not self._held, None)
        self._held = True
        self.owner = w.current
        return True

    def release(self):
        if not self._held:
            raise RuntimeError("release unlocked lock")
        self._held = False
        self.owner = None

    def locked(self):
        return self._held

    def __enter__(self):
        self.acquire()
        return self

    def __exit__(self, *a):
        self.release()


class SimThread:
    """Replacement for threading.Thread (plain, non-subclassed uses)."""

    def __init__(self, group=None, target=None, name=None, args=(), kwargs=None, *, daemon=None):
        self._target = target
        self._args = args
        self._kwargs = dict(kwargs or {})
        self.name = name or "Thread"
        self._st = None
        self.daemon = daemon

    def run(self):
        if self._target:
            self._target(*self._args, **self._kwargs)

    def start(self):
        if self._st is not None:
            raise RuntimeError("threads can only be started once")
        self._st = _W().spawn(self.run, self.name)

    def is_alive(self):
        return self._st is not None and not self._st.done

    def join(self, timeout=None):
        if self._st is None:
            raise RuntimeError("cannot join thread before it is started")
        st = self._st
        if st is _W().current:
            raise RuntimeError("cannot join current thread")       # as threading.Thread.join does
        if not st.done:
            _W().block(lambda: st.done, timeout)


class ThreadingShim:
    Thread = SimThread
    Event = SimEvent
    Lock = SimLock

    def __getattr__(self, n):
        return getattr(_rt, n)


class SimQueue:
    def __init__(self, maxsize=0):
        self.maxsize = maxsize
        self.q = collections.deque()
        self.accepted = []      # every item ever accepted, in acceptance order (observation)

    def qsize(self):
        return len(self.q)

    def empty(self):
        return not self.q

    def full(self):
        return 0 < self.maxsize <= len(self.q)

    def put(self, item, block=True, timeout=None):
        w = _W()
        if self.maxsize > 0 and len(self.q) >= self.maxsize:
            if not block:
                raise _rq.Full
            w.block(lambda: len(self.q) < self.maxsize, timeout)
            if len(self.q) >= self.maxsize:
                raise _rq.Full
        else:
            w.point()
        self.q.append(item)
        self.accepted.append(item)

    def put_nowait(self, item):
        return self.put(item, block=False)

    def get(self, block=True, timeout=None):
        w = _W()
        if not self.q:
            if not block:
                raise _rq.Empty
            w.block(lambda: bool(self.q), timeout)
            if not self.q:
                raise _rq.Empty
        else:
            w.point()
            if not self.q:
                w.block(lambda: bool(self.q), timeout)
                if not self.q:
                    raise _rq.Empty
        w.jumps = 0         # taking an item off a queue is progress: the loop budget counts iterations *without* consuming input
        return self.q.popleft()

    def get_nowait(self):
        return self.get(block=False)


class QueueShim:
    Queue = SimQueue
    Empty = _rq.Empty
    Full = _rq.Full

    def __getattr__(self, n):
        return getattr(_rq, n)


class TimeShim:
    def time(self):
        # the clock has 1 s resolution for every decision the node takes (it truncates with int());
        # a deterministic sub-second drift keeps measured durations non-zero, as on a real clock
        w = _W()
        if w._tnow != w.now:
            w._tnow = w.now
            w._tcalls = 0
        w._tcalls = min(w._tcalls + 1, 900_000)
        return w.now + w._tcalls * 1e-6

    def sleep(self, s):
        _W().block(lambda: False, s)

    def monotonic(self):
        return _W().now

    def __getattr__(self, n):
        return getattr(_rtime, n)


class RandomShim:
    """Deterministic stand-in for the `random` module as used by _helpers."""

    def _next(self):
        w = _W()
        if w.rand_plan:
            return w.rand_plan.popleft()
        w.rand_counter += 1
        return w.rand_counter * 0x01000000 + 0x00001000     # distinct, far apart, < 2^32 for 255 draws

    def randint(self, a, b):
        v = self._next()
        span = b - a + 1
        return a + (v - a) % span if not (a <= v <= b) else v

    def getrandbits(self, k):
        return self._next() % (1 << k)

    def __getattr__(self, n):
        return getattr(_rrandom, n)


class FakeSocket:
    """Observable behaviour of a non-blocking TCP socket, nothing more (Appendix A)."""

    def __init__(self, family=None, type_=None, proto=0, fileno=None):
        w = _W()
        self.closed = False
        self.rbuf = bytearray()
        self.eof = False
        self.sent = bytearray()         # every byte accepted by send(), in order
        self.sent_off = 0               # consumer cursor used by env.frames()
        self.listening = False
        self.backlog = collections.deque()
        self.connecting = False
        self.conn_done = False
        self.so_error = 0
        self.peer_name = None
        self.addr = None
        self.send_plan = collections.deque()
        self.send_default = None        # callable(data)->int|-errno, consulted when plan is empty
        self.recv_err = None
        self.send_blocked = False
        self.on_sent = None
        self.linger0 = False
        self.sid = len(w.socks)
        self.kind = "sock"
        self.connect_called = False
        self.dead = False               # the connection was reset or failed hard (getpeername -> ENOTCONN)
        w.socks.append(self)
        self._fd = None
        self._fd = w.alloc_fd()
        self.created_while = w.probe() if w.probe is not None else None

    def __repr__(self):
        return f"<FakeSocket #{self.sid} fd={self._fd}{' closed' if self.closed else ''}>"

    def fileno(self):
        return -1 if self.closed else self._fd

    def setblocking(self, f):
        if self.closed:
            raise OSError(_errno.EBADF, "Bad file descriptor")

    def setsockopt(self, level, opt, val):
        if self.closed:
            raise OSError(_errno.EBADF, "Bad file descriptor")
        if opt == _rsock.SO_LINGER:
            self.linger0 = True

    def getsockopt(self, level, opt, *a):
        if self.closed:
            raise OSError(_errno.EBADF, "Bad file descriptor")
        return self.so_error

    def bind(self, a):
        self.addr = a

    def listen(self, n):
        self.listening = True
        self.kind = "listener"
        _W().listeners.append(self)

    def accept(self):
        if not self.backlog:
            raise OSError(_errno.EAGAIN, "Resource temporarily unavailable")
        c = self.backlog.popleft()
        # the descriptor number is handed out when accept() returns the socket, not when the environment queued the connection: the
        # lowest number that is free *now* (so a descriptor closed a moment ago is re-used, as the OS does)
        c._fd = None
        c.in_backlog = False
        c._fd = _W().alloc_fd()
        return c, c.peer_name

    def connect(self, addr):
        w = _W()
        if self.closed:
            raise OSError(_errno.EBADF, "Bad file descriptor")
        self.peer_name = addr
        self.connect_called = True
        self.kind = "dialled"
        if w.on_connect is not None:
            plan = w.on_connect(self)
        else:
            plan = w.connect_plan.popleft() if w.connect_plan else "ok"
        w.obs("connect", self.sid, addr, plan)
        if plan == "ok":
            self.conn_done = True
            return
        if plan in ("inprogress", "inprogress_ok", "inprogress_fail"):
            self.connecting = True
            if plan == "inprogress_ok":
                self.conn_done = True
            elif plan == "inprogress_fail":
                self.conn_done = True
                self.so_error = _errno.ECONNREFUSED
            raise OSError(_errno.EINPROGRESS, "Operation now in progress")
        raise OSError(_errno.ECONNREFUSED, "Connection refused")

    def resolve_connect(self, ok=True):
        """Environment: finish an in-progress connect."""
        self.conn_done = True
        self.so_error = 0 if ok else _errno.ECONNREFUSED

    def getsockname(self):
        if self.closed:
            raise OSError(_errno.EBADF, "Bad file descriptor")
        return ("127.0.0.1", 40000 + self._fd)

    _HARD = (_errno.ECONNRESET, _errno.ETIMEDOUT, _errno.EPIPE, _errno.ECONNREFUSED, _errno.EHOSTUNREACH)

    def getpeername(self):
        """As the OS answers: EBADF once closed, ENOTCONN for a socket that never got connected or whose connection has been
        reset / has failed (a peer's orderly close leaves the socket in CLOSE_WAIT, where the call still succeeds)."""
        if self.closed:
            raise OSError(_errno.EBADF, "Bad file descriptor")
        connected = (self.kind == "accepted") or (self.connect_called and self.conn_done and not self.so_error)
        if not connected or self.dead or self.recv_err in self._HARD:
            raise OSError(_errno.ENOTCONN, "Transport endpoint is not connected")
        return self.peer_name if self.peer_name is not None else ("10.9.9.9", 50000 + self._fd)

    def shutdown(self, how):
        if self.closed:
            raise OSError(_errno.EBADF, "Bad file descriptor")
        if self.dead or not ((self.kind == "accepted") or (self.connect_called and self.conn_done and not self.so_error)):
            raise OSError(_errno.ENOTCONN, "Transport endpoint is not connected")

    def settimeout(self, t):
        if self.closed:
            raise OSError(_errno.EBADF, "Bad file descriptor")

    def gettimeout(self):
        return 0.0

    def recv(self, n):
        if self.closed:
            raise OSError(_errno.EBADF, "Bad file descriptor")
        if self.recv_err:
            e = self.recv_err
            self.recv_err = None
            if e in self._HARD:
                self.dead = True
            raise OSError(e, _ros.strerror(e))
        if self.rbuf:
            d = bytes(self.rbuf[:n])
            del self.rbuf[:n]
            return d
        if self.eof:
            return b""
        raise OSError(_errno.EAGAIN, "Resource temporarily unavailable")

    def recv_into(self, buffer, nbytes=0, flags=0):
        """As the OS does: up to len(buffer) (or nbytes) bytes are copied into the caller's buffer; returns the count."""
        mv = memoryview(buffer)
        data = self.recv(nbytes or len(mv))
        mv[:len(data)] = data
        return len(data)

    def send(self, data):
        w = _W()
        if self.closed:
            raise OSError(_errno.EBADF, "Bad file descriptor")
        p = None
        if self.send_plan:
            p = self.send_plan.popleft()
            if callable(p):
                p = p(data)
        elif self.send_default is not None:
            p = self.send_default(data)
        if p is None:
            n = len(data)
        elif p < 0:
            w.obs("send_err", self.sid, -p)
            if -p in self._HARD:
                self.dead = True
            raise OSError(-p, _ros.strerror(-p))
        else:
            n = min(p, len(data))
        if getattr(self, "pin_during_send", False) and w.points_on:
            # the system call holds an export of the caller's buffer while other threads run (send() releases the interpreter lock): a
            # bytes object does not mind; a bytearray cannot be resized meanwhile (BufferError in whoever tries)
            try:
                pin = memoryview(data)
            except TypeError:
                pin = None
            w.point()
            if pin is not None:
                pin.release()
        chunk = bytes(data[:n])
        self.sent += chunk
        w.obs("send", self.sid, chunk)
        if self.on_sent is not None:
            self.on_sent(self, chunk)       # a reactive peer: may queue bytes for the node at once
        return n

    def close(self):
        if not self.closed:
            _W().obs("close", self.sid, self.linger0)
        self.closed = True
        # connections still waiting in the backlog of a listener are reset by the OS when it closes
        while self.backlog:
            c = self.backlog.popleft()
            if not c.closed:
                _W().obs("close", c.sid, False)
                c.closed = True

    # ---- readiness as seen by select
    def readable(self):
        return bool(self.rbuf) or self.eof or bool(self.backlog) or self.recv_err is not None

    def writable(self):
        if self.connecting and not self.conn_done:
            return False
        return not self.send_blocked


def _make_socket(*a, **k):
    """socket.socket(): fails with EMFILE while the environment says the process is out of descriptors."""
    w = _W()
    if w.socket_fail > 0:
        w.socket_fail -= 1
        w.obs("socket_fail")
        raise OSError(_errno.EMFILE, "Too many open files")
    return FakeSocket(*a, **k)


class FakeSctpSocket(FakeSocket):
    """What the node uses of a pysctp one-to-one socket (`sctp.sctpsocket_tcp`): the plain socket calls (pysctp hands them to the
    socket it wraps) plus `bindx`, `connectx` and `sctp_send`.  Byte-stream semantics as for FakeSocket - the node frames its own
    messages, so the property monitors read the same log; the flags of every `sctp_send` are noted."""

    def __init__(self, family=None, *a, **k):
        super().__init__(family)
        self.proto = "sctp"
        self.sctp_flags = set()        # distinct flag words seen (a set: the harness measures container sizes for C19)

    def bindx(self, addrs, *a):
        if self.closed:
            raise OSError(_errno.EBADF, "Bad file descriptor")
        self.addr = list(addrs)[0]

    def connectx(self, addrs, *a):
        return self.connect(tuple(list(addrs)[0]))

    def sctp_send(self, msg, to=("", 0), ppid=0, flags=0, stream=0, timetolive=0, context=0):
        self.sctp_flags.add(flags)
        return self.send(msg)


def _make_sctp_socket(*a, **k):
    w = _W()
    if w.socket_fail > 0:
        w.socket_fail -= 1
        w.obs("socket_fail")
        raise OSError(_errno.EMFILE, "Too many open files")
    return FakeSctpSocket(*a, **k)


class SctpShim:
    """Stands in for the `sctp` module (pysctp) in diameter.node.node."""
    sctpsocket_tcp = staticmethod(_make_sctp_socket)
    sctpsocket = FakeSctpSocket
    MSG_UNORDERED = 1


class SocketShim:
    socket = staticmethod(_make_socket)
    error = OSError

    def __getattr__(self, n):
        return getattr(_rsock, n)


class SelectShim:
    error = OSError

    def select(self, r, w, x, timeout=None):
        W = _W()
        for s in list(r) + list(w):
            if not isinstance(s, int) and s.closed:
                raise ValueError("file descriptor cannot be a negative integer (-1)")

        def ready():
            rr = [s for s in r if (bool(W.pipes.get(s)) if isinstance(s, int) else (not s.closed and s.readable()))]
            ww = [s for s in w if not s.closed and s.writable()]
            return rr, ww

        def any_ready():
            a, b = ready()
            return bool(a or b)

        rr, ww = ready()
        if not rr and not ww:
            W.block(any_ready, timeout)
            rr, ww = ready()
        else:
            W.block(None)       # a select that returns at once is still a scheduling point
            rr, ww = ready()
        W.obs("select", len(rr), len(ww))
        return rr, ww, []

    def __getattr__(self, n):
        return getattr(_rselect, n)


class OsShim:
    def pipe(self):
        W = _W()
        r = W.alloc_fd()
        W.pipes[r] = bytearray()
        w = W.alloc_fd()
        W.wfd2r[w] = r
        return r, w

    def read(self, fd, n):
        b = _W().pipes[fd]
        d = bytes(b[:n])
        del b[:n]
        return d

    def write(self, fd, data):
        W = _W()
        W.point()
        W.pipes[W.wfd2r[fd]] += data
        return len(data)

    def close(self, fd):
        W = _W()
        W.pipes.pop(fd, None)
        W.wfd2r.pop(fd, None)

    def urandom(self, n):
        W = _W()
        if W.urandom_plan:
            return W.urandom_plan.popleft()
        W.urandom_counter += 1
        return W.urandom_counter.to_bytes(n, "big")

    def __getattr__(self, n):
        return getattr(_ros, n)


# ====================================================================== install
_installed = False
MON_TOOL = 4
_line_sets: dict = {}       # code -> None | (first,last) line filter
_call_set: set = set()
_jump_codes: set = set()


def _on_line(code, line):
    w = WORLD
    if w is None or not w.points_on or w.current is None:
        return
    r = _line_sets.get(code, 0)
    if r == 0:
        return
    if r is not None and not (r[0] <= line <= r[1]):
        return
    w.block(None)


def _on_start(code, offset):
    w = WORLD
    if w is None or not w.points_on or w.current is None:
        return
    if code in _call_set:
        w.block(None)


def _on_jump(code, src, dst):
    w = WORLD
    if w is None or w.current is None:
        return
    if dst < src:
        w.jumps += 1
        if w.jumps > w.jump_limit and not w.dying:
            w.jumps = 0
            raise SimSpin(f"{code.co_qualname}: {w.jump_limit} loop iterations without a scheduling point")


def _all_code_objects(mod):
    seen = set()
    out = []

    def walk(co):
        if co in seen:
            return
        seen.add(co)
        out.append(co)
        for c in co.co_consts:
            if hasattr(c, "co_code"):
                walk(c)

    import inspect
    for name, obj in vars(mod).items():
        if inspect.isfunction(obj) and obj.__module__ == mod.__name__:
            walk(obj.__code__)
        elif inspect.isclass(obj) and obj.__module__ == mod.__name__:
            for n2, o2 in vars(obj).items():
                f = o2
                if isinstance(o2, (staticmethod, classmethod)):
                    f = o2.__func__
                if isinstance(o2, property):
                    for g in (o2.fget, o2.fset, o2.fdel):
                        if g is not None:
                            walk(g.__code__)
                    continue
                if inspect.isfunction(f):
                    walk(f.__code__)
    return out


def install():
    """Replace the module globals of diameter.node.* with the shims (idempotent)."""
    global _installed
    if _installed:
        return
    import diameter.node.node as nn
    import diameter.node.peer as pp
    import diameter.node.application as aa
    import diameter.node._helpers as hh

    for seam, mods in (("threading", (nn, pp, aa, hh)), ("time", (nn, pp, hh)),
                       ("queue", (pp, aa)), ("select", (nn,)), ("socket", (nn,)),
                       ("os", (nn, pp)), ("random", (hh,))):
        for m in mods:
            if not hasattr(m, seam):
                raise HarnessError(f"seam `{seam}` is no longer a module global of {m.__name__}")
    th, ts, qs, osh = ThreadingShim(), TimeShim(), QueueShim(), OsShim()
    nn.threading = th; nn.time = ts; nn.select = SelectShim(); nn.socket = SocketShim(); nn.os = osh
    if "sctp" not in vars(nn):
        raise HarnessError("seam `sctp` is no longer a module global of diameter.node.node")
    nn.sctp = SctpShim()            # pysctp is absent from the image; the SCTP branches of the node run on the fake layer
    pp.threading = th; pp.time = ts; pp.queue = qs; pp.os = osh
    aa.threading = th; aa.queue = qs
    hh.threading = th; hh.time = ts; hh.random = RandomShim()
    # any further module-level use of these modules in the node package gets the shim too
    for m in (nn, pp, aa, hh):
        for seam, shim in (("threading", th), ("time", ts), ("queue", qs)):
            if hasattr(m, seam) and getattr(m, seam) is not shim and seam in vars(m):
                setattr(m, seam, shim)

    ST = hh.StoppableThread

    def st_start(self):
        if getattr(self, "_sim_st", None) is not None:
            raise RuntimeError("threads can only be started once")
        self._sim_st = _W().spawn(self.run, self.name)
        tgt = getattr(self, "_target", None)
        self._sim_st.kind = getattr(tgt, "__name__", None)

    def st_join(self, timeout=None):
        st = getattr(self, "_sim_st", None)
        if st is None:
            raise RuntimeError("cannot join thread before it is started")
        if st is _W().current:
            raise RuntimeError("cannot join current thread")       # as threading.Thread.join does
        if not st.done:
            _W().block(lambda: st.done, timeout)

    def st_alive(self):
        st = getattr(self, "_sim_st", None)
        return st is not None and not st.done

    ST.start = st_start
    ST.join = st_join
    ST.is_alive = st_alive

    mon = sys.monitoring
    mon.use_tool_id(MON_TOOL, "verif-simkernel")
    mon.register_callback(MON_TOOL, mon.events.LINE, _on_line)
    mon.register_callback(MON_TOOL, mon.events.PY_START, _on_start)
    mon.register_callback(MON_TOOL, mon.events.JUMP, _on_jump)
    # the decoder's own loops (message body, grouped AVP) count as well: a decoder that loops for ever inside a reader thread is a
    # reader that spins.  (The attribute / generator layers only iterate over finite tables; instrumenting them costs a quarter
    # of the run time of the schedule explorations for nothing.)
    import diameter.message._base as mb
    import diameter.message.avp.avp as ma
    for m in (nn, pp, aa, hh, mb, ma):
        for co in _all_code_objects(m):
            _jump_codes.add(co)
            mon.set_local_events(MON_TOOL, co, mon.events.JUMP)
    _installed = True


def _refresh_events(code):
    mon = sys.monitoring
    ev = 0
    if code in _jump_codes:
        ev |= mon.events.JUMP
    if _line_sets.get(code, 0) != 0:
        ev |= mon.events.LINE
    if code in _call_set:
        ev |= mon.events.PY_START
    mon.set_local_events(MON_TOOL, code, ev)


def set_line_points(mapping):
    """mapping: code object -> None (all lines) | (first,last).  Replaces the current set."""
    old = list(_line_sets)
    _line_sets.clear()
    _line_sets.update(mapping)
    for co in set(old) | set(mapping):
        _refresh_events(co)


def set_call_points(codes):
    old = set(_call_set)
    _call_set.clear()
    _call_set.update(codes)
    for co in old | set(codes):
        _refresh_events(co)


def code_of(obj, name):
    """Resolve a scheduling-point target; a missing one is a harness error (DESIGN 2.7)."""
    try:
        f = getattr(obj, name)
    except AttributeError:
        raise HarnessError(f"scheduling-point target {getattr(obj, '__name__', obj)}.{name} no longer exists")
    f = getattr(f, "__func__", f)
    if isinstance(f, property):
        f = f.fget
    return f.__code__


def spawn(fn, name):
    """Start a plain simulated thread running fn()."""
    t = SimThread(target=fn, name=name)
    t.start()
    return t


def os_thread_count():
    return _rt.active_count()
