#!/bin/sh
# Runs the repository's pinned test-suite with the verification guard off.
# usage: baseline.sh [repo-dir]
R="${1:-/repo}"
unset DIAMETER_VERIF
cd "$R" && exec /venv/bin/python -m pytest -ra -q -p no:cacheprovider --timeout=900 --continue-on-collection-errors
