#!/bin/sh
# usage: commit_fix.sh <message-file>   commits /repo working tree only if the pinned suite keeps its 157 passes
OUT=$(/verif/tools/baseline.sh 2>&1 | tail -1)
echo "$OUT"
case "$OUT" in *"157 passed"*) git -C /repo commit -qa -F "$1" && git -C /repo log --oneline | head -1;; *) echo "NOT COMMITTED: baseline changed"; exit 1;; esac
