#!/venv/bin/python
"""Writes MANIFEST.json from the table below (single source of truth for the interface)."""
import json, os
HERE = os.path.dirname(os.path.dirname(os.path.abspath(__file__)))
CHECKS = {}
def reg(pid, category, technique, text, note, ref, engine):
    CHECKS[pid] = dict(category=category, technique=technique, text=text, note=note, ref=ref, engine=engine)

exec(open(os.path.join(HERE, "tools", "manifest_table.py")).read())

NA = json.load(open(os.path.join(HERE, "tools", "not_applicable.json")))
man = {
 "version": 1,
 "setup_cmd": "cd /verif && /venv/bin/python -c \"import sys; sys.path.insert(0,'/verif'); import mc.simkernel, mc.refcodec, mc.common; print('verif framework importable; nothing to build')\"",
 "hooks": {"guard": "DIAMETER_VERIF", "enable": "no source hooks exist: the harness replaces module globals of diameter.node.* at run time (DESIGN.md 2.1); checks export DIAMETER_VERIF=1 for form only",
           "baseline_off_cmd": "/verif/tools/baseline.sh", "source_commits": [], "add_only": True},
 "engines": [
  {"name": "enum", "path": "mc/refcodec.py", "serves_properties": ["C01","C02","C03","C04","C20"], "kind_free_text": "bounded-exhaustive input enumeration of the sequential codec against an independent reference codec"},
  {"name": "simkernel", "path": "mc/simkernel.py", "serves_properties": ["C05","C06","C07","C08","C09","C10","C11","C12","C13","C14","C15","C16","C17","C18","C19"], "kind_free_text": "deterministic cooperative scheduler + virtual clock + fake socket layer under the unmodified node code"},
  {"name": "histbfs", "path": "mc/histbfs.py", "serves_properties": ["C06","C07","C08","C09","C11","C12","C13","C17","C19"], "kind_free_text": "explicit-state BFS over environment event histories; each transition executes the real node"},
  {"name": "scheddfs", "path": "mc/scheddfs.py", "serves_properties": ["C06","C07","C08","C09","C10","C11","C12","C13","C15","C16","C17","C18"], "kind_free_text": "stateless DFS over thread schedules with iterative preemption bounding (CHESS style)"},
  {"name": "handover", "path": "mc/handover.py", "serves_properties": ["C13","C19"], "kind_free_text": "an environment fault at every kernel step of a window followed at once by the reacting thread (one fault + one forced hand-over; complete over the numbered steps)"},
  {"name": "faultenum", "path": "mc/checks/c14.py", "serves_properties": ["C05","C14","C18"], "kind_free_text": "every cut point x fault kind of scripted scenarios, followed by a service probe"}
 ],
 "checks": [
  {"property_id": pid, "quick_cmd": f"./check {pid} --tier quick", "thorough_cmd": f"./check {pid} --tier thorough",
   "evidence_file": f"/verif/evidence/{pid}.json", "replay_cmd_template": "./check --replay {path}",
   "engine": c["engine"], "level_claimed": {"category": c["category"], "text": c["text"], "design_ref": c["ref"]},
   "level_note": c["note"], "technique": c["technique"]}
  for pid, c in sorted(CHECKS.items())],
 "not_applicable": [x for x in NA if x["property_id"] not in CHECKS],
 "notes": "All checks run the real implementation from /repo/src (override with VERIF_REPO). Known genuine defects are listed in known_findings.json."
}
json.dump(man, open(os.path.join(HERE, "MANIFEST.json"), "w"), indent=1)
print("checks:", sorted(CHECKS), "not_applicable:", [x["property_id"] for x in man["not_applicable"]])
