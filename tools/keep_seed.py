#!/venv/bin/python
"""Confirm a seeded change produced by a sub-agent and keep it under /verif/seeded/<id>/.

usage: keep_seed.py <worktree> <patch-file> <demo-file> <seed-id> <property> "<needs>" [--checks C16,C10]

Confirms, in the scratch worktree: (1) patch applies, (2) the pinned suite still has 157 passes with it,
(3) the demo fails with it, (4) the demo passes without it.  Then applies the patch to /repo, runs the
named checks (quick tier) and undoes it, recording which checks report a violation.
"""
import json
import os
import shutil
import subprocess
import sys


def sh(cmd, cwd=None, env=None):
    p = subprocess.run(cmd, shell=True, cwd=cwd, env=env, capture_output=True, text=True)
    return p.returncode, p.stdout + p.stderr


def main():
    wt, patch, demo, sid, prop, needs = sys.argv[1:7]
    checks = [prop]
    if "--checks" in sys.argv:
        checks = sys.argv[sys.argv.index("--checks") + 1].split(",")
    env = dict(os.environ, PYTHONPATH=f"{wt}/src")
    env.pop("DIAMETER_VERIF", None)
    patch = os.path.abspath(patch)
    demo = os.path.abspath(demo)
    ran = []
    rc, out = sh("git checkout -- src && git status --short src", wt)
    rc, out = sh(f"git apply {patch}", wt)
    assert rc == 0, f"patch does not apply: {out}"
    ran.append(f"git apply {os.path.basename(patch)} (in scratch worktree)")
    rc, out = sh("/venv/bin/python -m pytest -q -p no:cacheprovider 2>&1 | tail -3", wt, env)
    tail = out.strip().splitlines()[-1]
    ran.append(f"pytest with change: {tail}")
    assert "157 passed" in tail, f"suite does not pass with the change: {out}"
    rc_with, out_with = sh(f"/venv/bin/python {demo}", wt, env)
    ran.append(f"demo with change: exit {rc_with}")
    sh("git checkout -- src", wt)
    rc_without, out_without = sh(f"/venv/bin/python {demo}", wt, env)
    ran.append(f"demo without change: exit {rc_without}")
    assert rc_with != 0 and rc_without == 0, f"demo does not discriminate: with={rc_with} without={rc_without}\n{out_with[-800:]}\n{out_without[-800:]}"
    # run the checks against a scratch copy of /repo's HEAD with the patch applied (VERIF_REPO), never /repo itself
    scratch = f"/tmp/wt_apply_{os.getpid()}"
    sh(f"git -C /repo worktree remove --force {scratch}")
    rc, out = sh(f"git -C /repo worktree add --detach {scratch} HEAD")
    assert rc == 0, out
    caught = {}
    try:
        rc, out = sh(f"git apply {patch}", scratch)
        if rc != 0:
            # /repo has moved on (a fix: commit) since the sub-agent's worktree was made: rebase the change with a 3-way merge
            rc, out = sh(f"git apply --3way {patch}", scratch)
            rc2, out2 = sh("grep -rl '^<<<<<<< ' src", scratch)
            assert rc == 0 and not out2.strip(), f"patch does not apply to /repo HEAD, 3-way merge conflicts: {out} {out2}"
            sh("git reset -q", scratch)
            rc, out = sh("git diff -- src", scratch)
            patch = f"/tmp/rebased_{os.getpid()}.diff"
            open(patch, "w").write(out)
            ran.append("patch rebased onto the current /repo HEAD with git apply --3way (no conflicts)")
            env3 = dict(os.environ, PYTHONPATH=f"{scratch}/src")
            env3.pop("DIAMETER_VERIF", None)
            rc, out = sh(f"/venv/bin/python {demo}", scratch, env3)
            ran.append(f"demo with the rebased change on the current HEAD: exit {rc}")
            assert rc != 0, "demo no longer fails with the rebased change"
            rc, out = sh("/venv/bin/python -m pytest -q -p no:cacheprovider 2>&1 | tail -3", scratch, env3)
            ran.append(f"pytest with the rebased change: {out.strip().splitlines()[-1]}")
            assert "157 passed" in out
        env2 = dict(os.environ, VERIF_REPO=scratch, VERIF_EVIDENCE_DIR=f"{scratch}/.evidence")
        for c in checks:
            rc, out = sh(f"./check {c} --tier quick", "/verif", env2)
            keys = [l.strip() for l in out.splitlines() if l.startswith("  " + c + ":")]
            caught[c] = {"exit": rc, "violations": [k[:300] for k in keys][:6]}
            ran.append(f"VERIF_REPO=<scratch copy with the change> ./check {c} --tier quick: exit {rc}")
    finally:
        sh(f"git -C /repo worktree remove --force {scratch}")
    d = f"/verif/seeded/{sid}"
    os.makedirs(d, exist_ok=True)
    shutil.copy(patch, f"{d}/patch.diff")
    shutil.copy(demo, f"{d}/{os.path.basename(demo) if os.path.basename(demo).startswith('demo') else 'demo.py'}")
    meta = {"id": sid, "breaks_property": prop, "needs_to_manifest": needs, "confirmed": ran,
            "base_commit": sh("git -C /repo rev-parse --short HEAD")[1].strip(),
            "detected_by": caught}
    json.dump(meta, open(f"{d}/meta.json", "w"), indent=1)
    print(json.dumps(meta, indent=1))


if __name__ == "__main__":
    main()
