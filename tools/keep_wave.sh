#!/bin/bash
# usage: keep_wave.sh <PROP> <wave> "<needs 1>" "<needs 2>" "<needs 3>"   (worktree /tmp/wt_<wave>_<PROP>; empty needs = skip that patch)
P=$1; W=$2; shift 2
D=/tmp/wt_${W}_$P
n=0
for needs in "$@"; do
  n=$((n+1))
  [ -z "$needs" ] && continue
  [ -f $D/patch_$n.diff ] || { echo "no patch_$n.diff"; continue; }
  /verif/tools/keep_seed.py $D $D/patch_$n.diff $D/demo_$n.py $P-$W-$n $P "$needs" > /tmp/keep_${P}_${W}_$n.log 2>&1
  rc=$?
  /venv/bin/python - "$P" "$W" "$n" "$rc" <<'PY'
import json, sys
P, W, n, rc = sys.argv[1:]
try:
    m = json.load(open(f"/verif/seeded/{P}-{W}-{n}/meta.json"))
    d = m["detected_by"][P]
    print(f"{P}-{W}-{n}: kept; check exit {d['exit']}  {d['violations'][:1]}")
except Exception as e:
    print(f"{P}-{W}-{n}: NOT KEPT (rc {rc}) see /tmp/keep_{P}_{W}_{n}.log")
PY
done
