reg("C16", "model_checking", "stateless schedule enumeration (preemption-bounded DFS) of the real generators at source-line granularity + exhaustive boundary sweep",
    "Every schedule of 2-3 threads x 1-3 draws with <= 2 (quick) / 3 (thorough) preemptions at line granularity inside next_sequence/next_id, start values incl. MAX-1, MAX; the node's own use (two send_request callers, send_dwr || send_request) at bound 1/2; plus the sequential contract (wrap, non-zero, init bits, session-id format, 10^5 draws). Oracle: returned ids are exactly the next N successors of the start value.",
    "Lines without a traced call are atomic; generators reached only through threads; random source and clock owned by the harness.",
    "DESIGN.md 3 (C16), 2.3", "scheddfs")
