reg("C16", "model_checking", "stateless schedule enumeration (preemption-bounded DFS) of the real generators at source-line granularity + exhaustive boundary sweep",
    "Every schedule of 2-3 threads x 1-3 draws with <= 2 (quick) / 3 (thorough) preemptions at line granularity inside next_sequence/next_id, start values incl. MAX-1, MAX; the node's own use (two send_request callers, send_dwr || send_request) at bound 1/2; plus the sequential contract (wrap, non-zero, init bits, session-id format, 10^5 draws). Oracle: returned ids are exactly the next N successors of the start value.",
    "Lines without a traced call are atomic; generators reached only through threads; random source and clock owned by the harness.",
    "DESIGN.md 3 (C16), 2.3", "scheddfs")
reg("C05", "fault_enumeration", "exhaustive enumeration of streams x cut positions over the real framing thread under a deterministic kernel",
    "Every stream of <=2 (quick) / <=3 (thorough) frames over a 6-frame well-formed alphabet (incl. two undecodable-body frames and a 3 KiB request) plus one malformed-length frame (0..19, real-4, real+4) at every position, x every 1-cut, every 2-cut of short streams (all boundary/header-end neighbourhood pairs for long ones), fixed chunk sizes incl. byte-at-a-time, drained and queued delivery. Oracle: exactly the decodable frames, once, in order, connection kept open; malformed lengths: no loop without progress (back-edge budget), reader alive or connection closed.",
    "Bare PeerConnection fed through add_in_bytes as the node's I/O thread does; queue/threading/time replaced by kernel shims; spin = 3000 loop back-edges without a scheduling point.",
    "DESIGN.md 3 (C05), 2.4", "faultenum")
reg("C01", "exploration", "bounded-exhaustive enumeration of the AVP value/flag/dictionary space against an independent reference codec",
    "Per type the complete value alphabet of DESIGN 3 C01 (integer boundaries and all 2^k+-1, IEEE special patterns and rounding cases compared bitwise, unicode over 9 boundary code points to length 3, all octet strings of length <=2 and every length 0..300 (quick) / 0..4096 (thorough) x 3 fills, both NTP era boundaries +-2 s and one instant per year, IPv4/IPv6/E.164) on every one of the 2,824 dictionary entries of that type x 4 M/P choices, grouped trees to depth 3 and chains to depth 6, run-time registered definitions, unknown codes; each case: encode == refcodec wire, decode of 4 flag variants yields class/code/vendor/flags/value, re-encode == wire; out-of-domain values raise and leave the payload untouched.",
    "refcodec (written from RFC 6733 4.1-4.4 and RFC 5905) is the oracle; process TZ=UTC.",
    "DESIGN.md 3 (C01), 2.5", "enum")
reg("C02", "exploration", "bounded-exhaustive enumeration of headers, command dispatch, message bodies and search-path orderings against an independent reference codec",
    "Every header field over its boundary set (all 256 flag octets, every registered command code, boundary ids) alone and a 3^6 product; every registered code (+ run-time registered, unknown) x R bit for class dispatch; all 2,380 AVP sequences of length 0..3 over a 13-AVP alphabet (incl. header-only AVPs with and without vendor id) in unknown / plain / untyped commands (decode == wire tree, re-encode == input, length field == byte count); the whole dictionary in 40-AVP messages, chains to depth 6, a 64 KiB message; every ordering of 1..3 distinct search paths (length 1..4) on a freshly decoded message vs a reference tree walk.",
    "refcodec is the oracle; AVP order/byte-exactness required of generic decodes only (typed classes document regrouping), header identity of every decode.",
    "DESIGN.md 3 (C02)", "enum")
reg("C03", "exploration", "exhaustive enumeration over programs (every command class, container class and attribute definition) with a fixed value alphabet and subset classes, against a byte-exact reference encoding",
    "All 70 typed request/answer classes, 254 container classes and 2,8xx AvpGenDef entries: static obligations (dictionary entry exists, grouped iff container, no duplicate AVP or attribute per class) and dynamic ones (none / each single x 2 values / lists of 0,1,3 / each pair with the first / all recursively / all+extras / all-but-one): bytes == refcodec encoding in table order, typed decode restores every value, encode-decode-encode == encode; untyped commands expose every dictionary AVP by normalised name (single, repeated, grouped).",
    "refcodec + dictionary types are the oracle; attributes a class fills on creation count as set.",
    "DESIGN.md 3 (C03)", "enum")
reg("C04", "exploration", "exhaustive enumeration of mutation classes (prefixes, bit flips, length-field boundary values, hostile payloads) over one populated message per typed command",
    "Per seed: every prefix, every single-bit flip, pairs of flips in message/AVP headers, every (nested) length field x 9 boundary values, typed and plain decode; every AVP type x payload length 0..20 x 9 hostile fills, bare and inside typed/untyped/unknown commands; all byte strings of length <= 2; 3-symbol tails; chains to depth 16. Oracle: only packer.Error/AvpDecodeError escape, .value raises only AvpDecodeError, str() never raises, primitive-read count linear, unpacker position inside the buffer.",
    "Primitive reads counted by wrapping Unpacker methods at run time (no source hook).",
    "DESIGN.md 3 (C04)", "enum")
reg("C20", "exploration", "exhaustive enumeration of command classes x flag octets x boundary header values for to_answer and both generate_answer helpers",
    "All 208 classes (typed requests, typed bases, untyped commands, UndefinedMessage, Message) x all 256 flag octets x 2 versions x boundary ids (direct) and all 128 R-set octets decoded with/without Session-Id/Origin/Proxy-Info; Node._generate_answer and Application.generate_answer (auth, acct) for every typed request x 5 flag octets. Oracle: paired answer class, version/code/application/ids copied, P kept, R/E/T cleared, request header and bytes unchanged, local Origin-Host/Realm, Session-Id and both Proxy-Info copied.",
    "Answer bytes are decoded with refcodec; untyped (read-only) commands exempt from the AVP clause.",
    "DESIGN.md 3 (C20)", "enum")
reg("C06", "model_checking", "explicit-state BFS over environment event histories; each transition runs the real node under a deterministic kernel; gate/outcome/timeout trace monitor",
    "8 node configurations (0..2 applications, per-peer and node-level CE timeouts, inbound, two inbound, outbound with immediate and in-progress connect) x alphabets of CER variants {known, unknown, no common application, relay, no Origin-Host}, CEA variants {2001, 3xxx, 5xxx, no Origin-Host, no Result-Code}, bursts of CER+{request, DWR, DPR}, DWR/DWA/DPR/DPA, application request/answer, send_request, eof, 1 s ticks; depth 5 quick / 6 thorough (8/9 for the traffic-vs-timeout model), re-run without deduplication two levels less. Monitor: before CE success only the matching CEA/CER leaves and no application sees anything; outcome 2001+identity+ready / 3010+closed / 5010+not ready; outbound CER first, ready iff CEA 2001, closed otherwise; closed at the first timer check after the deadline and not before.",
    "One environment event = one atomic transition under the default schedule; sockets, clock, select replaced by the harness model (DESIGN Appendix A).",
    "DESIGN.md 3 (C06), 2.2", "histbfs")
reg("C07", "model_checking", "explicit-state BFS over event histories of the real node with an answer-matching trace monitor",
    "5 models (ready inbound connection; handler raising; unidentified inbound incl. CER bursts; outbound with CEA variants and send_request; two ready connections with eof/DPR) over 16-19 event alphabets of well-formed and defective requests and answers; depth 4 quick / 6 thorough, plus a search without deduplication two levels less. Monitor: every frame written with R clear matches exactly one request read from that socket and not yet answered (command code, application id, hop-by-hop, end-to-end); none twice, none in reaction to an answer. The same monitor is attached to the C06/C08/C09/C17 explorations.",
    "Hop-by-hop ids of in-flight requests are connection-unique; one event = one atomic transition.",
    "DESIGN.md 3 (C07)", "histbfs")
reg("C08", "model_checking", "explicit-state BFS over event histories of the real node with a routing monitor that recomputes the decision from the configuration, plus an exhaustive sweep over all typed request classes",
    "3 configurations (3 applications incl. the same id on two peers and an additional realm; raising handler; a peer living in a second realm) x request variants header application id {registered, other registered, unregistered} x realm {own, additional, foreign} x {complete, missing required AVP} from a configured and a known-but-not-configured peer, interleaved with DWR/DWA/DPR, untyped commands, application answers and ticks; depth 4 quick / 5 thorough. Oracle: delivered exactly once to exactly the application configured for (realm, id, peer), base-protocol commands never delivered, else exactly one answer 5005(+Failed-AVP listing exactly the missing AVPs)/3003/3007/5012 and no delivery. Sweep: every typed request class (32) x {complete, each single required attribute removed, each pair, all} on a ready connection.",
    "Routing is judged per (realm, peer) as add_application documents; one event = one atomic transition.",
    "DESIGN.md 3 (C08)", "histbfs")
reg("C17", "model_checking", "explicit-state BFS over request/answer histories of the real node against a per-origin sliding-window reference",
    "Requests from 2 origin hosts with T in {0,1} and end-to-end ids from a pool of 3 on a ready connection, answered at once (windows 1..3, 4 thorough) or held and answered in every order (windows 1..2); depth 5 quick / 7 thorough plus a search without deduplication. Oracle: T and (origin, e2e) within the last W answers transmitted to that origin => 5012 by the node and no delivery; no T flag, never answered, or evicted from the window => delivered; cases on which counting with/without the node's own rejections disagrees are not judged.",
    "All requests arrive on one ready connection (relay scenario) with unique hop-by-hop ids.",
    "DESIGN.md 3 (C17)", "histbfs")
reg("C11", "model_checking", "explicit-state BFS over per-second timing histories of the real node (deviation-bounded) with a watchdog trace monitor judged at the node's own timer-check instants",
    "(idle, dwa, wakeup) in {(3,2,1),(2,2,2),(5,1,3)} x peer-level overrides {none, idle, dwa, both}, inbound and outbound ready connections; every history of 16 (quick) / 26 (thorough) seconds over {nothing, traffic frame, DWR from the peer, DWA} with at most 2 / 3 non-default seconds, plus every history of depth 6 without deviation bound. Monitor: at a timer check with nothing received for longer than the effective idle timeout exactly one DWR leaves and the connection awaits the DWA; never a DWR otherwise or while waiting; a DWA returns it to ready; at a check with the DWA overdue the socket is closed with the watchdog reason, never earlier; peer-level values win; DWR received => DWA 2001 with the node's Origin-State-Id. A node whose threads never reach quiescence at one instant is reported as livelock.",
    "1 s clock resolution as in the code; bytes arriving in the same instant as a timer check may or may not be counted by it (same-instant slack).",
    "DESIGN.md 3 (C11)", "histbfs")
reg("C12", "model_checking", "explicit-state BFS over histories of dial outcomes, CEA outcomes, DPR, peer closes and clock ticks on the real node with a reconnect-policy monitor",
    "Peers persistent x always_reconnect x reconnect_wait {2,3} x with/without addresses (+ non-persistent, + persistent peer connecting inbound) x initial dial outcome {ok, refused, in progress}; alphabet: plan {refused, in progress}, resolve ok/fail, CEA 2001/3xxx, DPR, eof, reset, send_request probe, 1 s tick on up to 3 sockets; depth 6 quick / 8 thorough (several reconnect cycles), plus a search without deduplication. Monitor (environment ground truth): DPR on a ready connection => DPA 2001, no request routed to it afterwards, reason records the DPR; every connect() satisfies persistent, has addresses, no live connection of that peer, >= reconnect_wait since the loss, not after a DPR unless always_reconnect, not stopping; when all hold at a reconnect check a connect() happens in that iteration; never two open self-initiated sockets to one peer.",
    "Loss instants are taken from the fake socket layer (node close / refused connect / failed resolve).",
    "DESIGN.md 3 (C12)", "histbfs")
reg("C13", "model_checking", "explicit-state BFS over connection life-cycle histories of the real node with a table-consistency invariant evaluated at every quiescent point",
    "2 peers / 2 applications; inbound model with up to 3 connections (the same peer may connect twice) and 3 outbound models (persistent peer dialled at start with ok / in progress / refused) combined with inbound connections of the same and another peer; alphabet: accept, CER {known p0/p1, unknown, no common app}, CEA {2001, 3xxx, no Origin-Host}, DPR, DWA, eof, reset, connect plans, resolve, 1 s ticks (CE and watchdog timeouts), garbage length; a model starting with a connection awaiting its DWA; depth 5 quick / 7 thorough + search without deduplication. Invariant: Peer.connection references a live connection of that peer iff the environment knows one; closed connections/sockets in none of connections/peer_sockets and their sockets closed; disconnect reason and time set after removal; application ready if a configured peer has a ready connection, not ready once none has a connection.",
    "A connection 'of a peer' = dialled to it, or accepted and answered 2001 for a CER naming it; socket_peers and _half_ready_connections are left to C19.",
    "DESIGN.md 3 (C13)", "histbfs")
reg("C09", "model_checking", "explicit-state BFS over request/answer/loss histories of the real node with an answer-routing monitor, plus preemption-bounded schedule exploration of send_answer racing with connection loss",
    "3 models (two peers with equal hop-by-hop ids; three peers; one peer reconnecting) over alphabets of requests with hop-by-hop ids from a pool of 2, answers in every order and a second time, eof / reset / DPR / new connection of the requester between arrival and submission, one host holding two connections; depth 5 quick / 6 thorough + search without deduplication; schedule DFS (bound 1 / 2, line granularity in route_answer, send_message, remove_peer_connection, close_connection_socket) of send_answer in its own thread vs eof / DPR handled by the I/O and reader threads. Oracle: an application answer's bytes appear only on the socket its request was read from, at most once; NotRoutable (and nothing transmitted) when that connection is gone, not ready, or the request was already answered; submission succeeds when it is ready.",
    "End-to-end ids unique per request (frames attributed by them), hop-by-hop ids unique only per connection.",
    "DESIGN.md 3 (C09)", "histbfs+scheddfs")
reg("C19", "model_checking", "exhaustive enumeration of cycle sequences (each single cycle, every ordered pair; thorough: a third of all triples) on the real node with a structural retained-state measure compared across repetition counts",
    "20 complete cycles (inbound/outbound request-answer, outbound timeout + late answer, DWR/DWA both ways, rejected requests of every kind, unexpected answers, connection closed by peer / after DPR / CER timeout / unknown peer / no common application / garbage / reset, dial refused / failed asynchronously / CEA rejected / established then lost / socket() failing with EMFILE, T-flagged duplicate rejected) each repeated 5 and 40 times (thorough 10/100 and 10/1000), every ordered pair repeated 2 and 6 times. Measure: sizes of all containers structurally reachable from node, peers, connections and applications (statistics and the bounded duplicate window excluded), live simulated threads, unclosed fake sockets, pipes; must be equal for both repetition counts.",
    "One standing ready connection keeps the node reachable; every request is answered and every extra connection has ended before measuring.",
    "DESIGN.md 3 (C19)", "histbfs")
reg("C15", "model_checking", "stateless schedule enumeration (preemption-bounded DFS) of the real writer / queueing / I-O send path at source-line granularity x enumerated partial-write and soft-error plans",
    "One ready connection of a started node; 2..4 messages (incl. one that cannot be encoded and a 400-byte one) queued from 1..3 producer threads; line points in work_write_queue, add_out_msg, remove_out_bytes, Message.as_bytes, send_message and the AST-located send branch of _handle_connections; send() answers from {all, 1 byte, 3 bytes, half, EAGAIN, EINTR, ENOBUFS} with up to 2 (quick) / 3 (thorough) non-default answers; every schedule with <= 2 (quick) / 3 (thorough) preemptions for 0..1 deviations, <= 1 / 2 for more. Oracle: bytes accepted by the socket == concatenation of the encodings in queue-acceptance order, each once, the unencodable one absent, nothing left unsent at quiescence, connection not closed by a soft error.",
    "Lines without a traced call are atomic; Message.as_bytes is traced so the read-modify-write of the append spans a scheduling point.",
    "DESIGN.md 3 (C15), 2.3", "scheddfs")
reg("C10", "model_checking", "exhaustive enumeration of peer-state / default-peer / callback configurations on the real node + preemption-bounded schedule DFS of concurrent send_request callers with scripted answer orders",
    "A: every vector of 3 peers x {no connection, connected awaiting CEA, ready, awaiting DWA, disconnecting} x 4 default-peer patterns x {least-used, custom callback}; 9 send_requests each (3 applications x realms {own, second, foreign}); oracle from the configuration: bytes only to a peer configured for (application, realm) or default for the realm whose connection is ready, exactly the callback's pick among exactly those candidates, NotRoutable and nothing written otherwise, non-zero hop-by-hop. B: 2..3 callers in send_request on two ready peers, answers in forward/reverse order, duplicated, late, with unknown ids, on the wrong connection, or sent by a reactive peer the instant the request hits its socket; equal generator start values on both connections; every schedule with <= 1 (quick) / 2 (thorough) preemptions at line granularity in route_request, send_request, receive_answer, _receive_app_answer, next_sequence. Oracle: unique hop-by-hop per connection, each caller gets the answer with its own ids or times out (only in the late script), unexpected answers only to the sending application or nobody.",
    "Configured-but-unready peers with a ready default peer: either outcome accepted.",
    "DESIGN.md 3 (C10), 2.3", "scheddfs")
reg("C14", "fault_enumeration", "exhaustive enumeration of (scenario, kernel step or frame byte-boundary class, fault kind) on the real node under a deterministic kernel, each followed by a service probe",
    "24 scenarios (inbound / outbound / in-progress handshake, request-answer, odd traffic, outbound request, watchdog, disconnect-peer, threading application with limit 0..3 x handler outcome {answer, none, raises, slow}); every kernel step x {eof, reset, read error, write error (+connect failure)} and every frame x {0, inside header, header end, inside body, last byte} x {eof, reset}; thorough adds ordered pairs of faults. Oracle: no simulated thread ended with an exception, the node's and application's long-lived workers still run, and a probe peer completes CER/CEA and has limit+2 requests delivered to the handler and answered 2001.",
    "Faults are injected by the driver between two kernel steps (step hooks); a fault on an already dead connection is a no-op.",
    "DESIGN.md 3 (C14), 2.4", "faultenum")
reg("C18", "fault_enumeration", "exhaustive product of connection-state vectors x peer reactions x timing x force on the real node with stop() in its own simulated thread, plus bounded schedule exploration of stop() vs the I/O thread",
    "0..2 (quick) / 0..3 (thorough) connections each in {connecting, awaiting CER, awaiting CEA, ready, awaiting DWA, disconnecting} x peer reaction to the DPR {DPA at once, after 1 s, never, close} x force x wait timeout {2, 5} x a newcomer at second 0 / 1 of the window or a lost persistent peer whose reconnect deadline falls into it. Oracle: one DPR (cause REBOOTING) to exactly the ready connections, none when forced; closed after the DPA or at the timeout, not before; newcomers closed unserved; no DWR and no dial while stopping; after stop() returned every fake socket ever created (listener included) is closed and no simulated thread is alive. Schedule DFS (bound 1; call points + every line of stop()) for 2 / 4 cases.",
    "A listener's un-accepted backlog is reset when the listener closes, as the OS does.",
    "DESIGN.md 3 (C18), 2.4", "faultenum")

# ---- additions made after the seeding waves (DESIGN.md 7); appended to the level text above
ADD = {
 "C05": "Chunks are handed over one by one, all at once, or (every 1-cut, large chunk sizes) with a 6 s pause of the sender after each chunk, so that the reader's 5 s poll expires on a partial frame.",
 "C06": "Added: CER variants offering the shared application only inside Vendor-Specific-Application-Id or under the other kind, IPv6 / undecodable Host-IP-Address; a model with two ready peers and a third awaiting its CEA with send_request events; schedule DFS (bound 1/2) inside the CER handling; every model also under the I/O-thread-last scheduling policy.",
 "C07": "Added: awaiting-DWA model, handler answers without Result-Code, bursts, zero identifiers, T-flagged answers; schedule DFS (bound 1/2) of one answer submitted from two threads / while the requester's connection is lost / sends a DPR, judged by the same monitor; thorough: every model also under the I/O-thread-last policy.",
 "C08": "Added: connection awaiting a DWA; two applications with two peers each and an additional realm (every (peer, realm) pair); T-flagged incomplete requests; send_request events before incoming requests; schedule DFS over two readers routing concurrently; thorough: I/O-thread-last policy copies.",
 "C09": "Added: end-to-end id 0, requester awaiting a DWA when it sends its DPR, one host with two connections; every model also under the I/O-thread-last policy.",
 "C10": "Part A now has 4 applications (two instances of one application id with different peers) = 12 send_requests per configuration; part C: BFS over {DPR, loss, watchdog, reconnection, send} with a monitor on every written request.",
 "C11": "Added: fragments (thirds of a message; 12-byte first read), obligation that a DWR received in either ready sub-state is answered, models for a second connection lifetime of the same inbound peer (after eof / after DPR) and for another peer with other timers on the reused descriptor, schedule DFS of DWA handling vs the timer check; thorough: I/O-thread-last policy copies.",
 "C12": "Added: DPR while the node's DWR is outstanding, inbound connections in the persistent models, connections ended by the node itself (garbage, hard write error), schedule DFS of stop() vs a due reconnect; thorough: I/O-thread-last policy copies.",
 "C13": "Added: model starting with a connection awaiting its DWA, garbage (badlen), two connections receiving in the same instant, invariant 'socket of an unlisted connection is closed'; schedule DFS (bound 1/2) of a handshake message vs the event that ends the connection (CER at the CER timeout, CEA at the CEA timeout, CER + eof, eof of the first connection while the second identifies); every model also under the I/O-thread-last policy.",
 "C14": "The probe reuses identifier pairs of lost connections and first re-sends, with the T flag and the original identifiers and Origin-Host, the requests for which the node neither wrote nor accepted an answer; exceptions escaping node.start() and getpeername()/shutdown() semantics of dead sockets are modelled.",
 "C15": "Queueing order is defined without looking inside the connection: a queueing call that returned before another began comes first (the queue's own acceptance order when every message passes it); 3 messages / 1 producer / bound 2 added.",
 "C16": "Line points in every function of the two generator classes; successors of time-seeded generators across the 20-bit boundary and 2^20+64 distinct draws.",
 "C17": "Added: answers held for 45 s; schedule DFS (bound 1/2) of an application thread answering vs the next request / the I/O thread's timer wake-up / a second answering thread; every model also under the I/O-thread-last policy.",
 "C18": "Added cases: output pending behind the DPR, CER completing inside the window, two ready connections of one peer, four listening addresses, 200 wake-up requests queued ahead of a closing connection's (I/O-thread-last policy), reconnect due in the instant of stop() with line points in the dial path (quick: free switches bounded by 2).",
 "C19": "Now 26 cycles (incl. cycles on a configured peer's only connection and garbage on one connection while another has traffic in the same instant), each under both scheduling policies.",
 "C20": "Helper sweep over application ids {0, 3, 4, 2^32-1}; attribute-level comparison of 0..3 Proxy-Info on untyped commands.",
}
for _k, _v in ADD.items():
    CHECKS[_k]["text"] += " " + _v
for _k in ("C06", "C07", "C08", "C09", "C11", "C12", "C13", "C17"):
    if "scheddfs" not in CHECKS[_k]["engine"]:
        CHECKS[_k]["engine"] = "histbfs+scheddfs"

# ---- additions of waves 4 and 5 (DESIGN.md 7)
ADD2 = {
 "C01": "Datetimes whose seconds-since-1900 count lies beyond one 32-bit cycle around the window (before 1900, from 2172-03-15T12:56:32Z) are a violation class of their own (rejected today; only the wrap of counts that fit 32 bits is the known finding).",
 "C02": "Every sequence of <= 3 operations over {encode message i of 4, encode that fails part-way (2 kinds)} ending in a successful encode must reproduce the wire; two threads encoding / decoding different messages at once, every interleaving with <= 1 (quick) / 2 (thorough) preemptions at call granularity inside the codec, results = sequential results.",
 "C03": "Undeclared AVPs inside grouped AVPs whose container offers additional_avps: three messages in a row with different extras (also per list element), then none; a decoded container must carry exactly the undeclared AVPs of its own wire form.",
 "C05": "Frames in which an AVP's own length field is 0 / 3 / 7 (may or may not be delivered; must neither spin the reader nor cost the frames around them; the decoder's own loops count towards the spin budget); two-connection race with line granularity inside MessageHeader.from_bytes / Message.from_bytes and a five-message segment.",
 "C06": "Model with two connections of peers that each share only a subset of the node's applications (accounting only / authentication only / relay / nothing), in every order: what one capabilities exchange negotiated must not change the next one's outcome or advertised ids.",
 "C07": "A frame written with the R bit that mirrors command code, application id and both identifiers of a request pending on that socket is judged as that request's answer with the request bit not cleared; one peer with several connections.",
 "C08": "Model with one peer holding two ready connections (requests on both, either lost, DPR on one).",
 "C09": "Model in which two connections carry requests under the same (hop-by-hop, end-to-end) pair (AnswerRoutePairMonitor attributes answer frames to the submission made in the same transition); the misrouting it finds on the pinned tree is a known finding, keyed to histories in which the pair was seen on two connections.",
 "C10": "Part A additionally with the third peer in another realm (one add_application call spanning two realms; quick: states {none, ready, disconnecting}^3) and a fifth application with two additional realms; part B with two instances of one application id on one connection each (answers and unexpected answers attributed to the sending instance).",
 "C11": "Model with two connections in which traffic for the other connection (also more than one recv() worth) reaches the node in the very instant of this connection's idle or DWA expiry (timers looked at in consecutive passes of the I/O loop); peer spelling its name in capitals.",
 "C12": "Both ends dialling each other with the peer's name in capitals in its CEA / CER, either connection lost while the other lives on (no second self-initiated connection; redial only when none is left).",
 "C13": "Invariant extended to the table of connections whose capabilities exchange is pending; models: second lifetime of a peer whose first connection is winding down after its DPR while unrelated connections come and go; 180 answers to write on one connection in the instant in which another must be closed (both scheduling policies); fault at every kernel step of the handling of a CER / CEA (peer close, CE deadline) with the I/O thread reacting at once (mc/handover.py), table invariant afterwards.",
 "C14": "Capacity clause: after the probe no worker thread of a connection the node no longer lists may be alive.",
 "C15": "Every message handed to the connection is tracked (incl. the node's own DPA); messages failing part-way through packing; DPR configurations.",
 "C16": "Start times with zero low bits.",
 "C17": "Model with two relays presenting requests of two origin hosts under the same identifier pair, held and answered in every order, then T-flagged repeats (found the node-wide origin table: fixed 9073d7f); reconnecting peer.",
 "C18": "DPAs arriving together.",
 "C19": "Measure is breadth-first (every object under its shortest path from the node / applications, depth <= 7); schedule DFS (bound 1 / 2) and fault-at-every-step enumeration of a handshake completing while the connection ends, followed by 1 + 3 requests whose retained state must not depend on their number; two closes in one instant.",
 "C20": "Every sequence of <= 5 operations over {add the application to node A, to node B, generate an answer, stop}: each answer carries the identity of the node the application belongs to at that moment; node-built answers on every rejection path.",
}
for _k, _v in ADD2.items():
    CHECKS[_k]["text"] += " " + _v
CHECKS["C13"]["note"] = CHECKS["C13"]["note"].replace("socket_peers and _half_ready_connections are left to C19", "socket_peers (a fileno index) is left to C19")


# ---- additions of wave 6 (DESIGN.md 7)
ADD3 = {
 "C01": "A decoded AVP whose M / P flags or vendor id are changed (value left alone) encodes with the new header.",
 "C08": "Model with pairs of requests in one network read (each answer must describe its own request); handler failing with the library's own NotRoutable.",
 "C09": "Application answering from within handle_request and submitting a second answer there (must be refused).",
 "C10": "Requests naming every configured peer in Destination-Host (eligibility unchanged); an answer arriving after its sender timed out must reach that application's handle_answer.",
 "C11": "Model with two DWRs in one read and the application's own request between the node's DWR and the DWA.",
 "C12": "12 / 50 / 700 wake-up requests in the instant in which the persistent peer's (younger or older) connection closes itself: reaped and redialled; garbage delivery is the loss instant in the ground truth.",
 "C13": "Peers of one application in two realms; 12 / 50 / 700 wake-up requests at once (fixed histories, both policies, closing connection younger and older).",
 "C14": "Every fault also at every source line of the handlers / workers / answer path with the I/O thread reacting at once (11 scenarios quick, all thorough); scenarios: held answers, two connections, mutual dial, two slow requests with the answer consumer scheduled last; oracles: requests of surviving connections answered, no worker thread of an ended connection left; schedule DFS (bound 1 / 2) of two pipelined requests.",
 "C15": "Several connections with output pending in one pass of the I/O loop: 9 x 9 send plans on two connections, 3 triples on three, one pair with schedule exploration.",
 "C16": "Watchdog requests on 2 / 3 connections idling out in one timer pass (identifiers on the wire; bound 1 for two connections, default schedule for three in the quick tier).",
 "C17": "Origin host with capital letters; answer refused after a DPR, then the T-flagged repeat after the peer has come back.",
 "C18": "Floods of 12 / 50 / 200 / 700 wake-ups ahead of the DPA's; an unencodable message queued ahead of the DPR (writers scheduled last); stop() called from a request-handler thread with a second application registered.",
 "C19": "28 cycles (requests held by an application: answered late / connection lost first); 12 / 50 / 700 wake-ups cycles; handshake interrupted at every step, repeated on three inbound connections.",
 "C20": "Applications registered for additional realms / with a peer in another realm x Destination-Realm values: local Origin-Host / Origin-Realm.",
}
for _k, _v in ADD3.items():
    CHECKS[_k]["text"] += " " + _v


# ---- additions of wave 7 (DESIGN.md 7)
ADD4 = {
 "C03": "The deepest chain of nested containers of every command (up to 8 levels), one path.",
 "C04": "IPv4 / IPv6 addresses of the wrong size must raise the AVP decode error.",
 "C06": "stop() while a connection still awaits its CER / CEA: the gate stays shut.",
 "C07": "Reads ending inside the next message (message 1 + 28 bytes of message 2, then the rest).",
 "C08": "Raising handler while the connection awaits a DWA; peers that advertised only a part of the node's applications.",
 "C10": "Part C model starting with three peers awaiting their DWA; part A application with peers of two realms and an additional realm; part B application routed through the realm's default peer.",
 "C11": "Fixed histories in which the peer stops reading (output stuck) and falls silent.",
 "C13": "Capitalised CEA in the outbound models; hard write failures.",
 "C14": "Rejected outbound handshake with the peer hanging up and a newcomer connecting once the node has dealt with the close (two-step fault); the newcomer must be served.",
 "C15": "Message unencodable because of a header field; send() holding the caller's buffer across a scheduling point.",
 "C16": "Retry of a request after NotRoutable.",
 "C17": "End-to-end identifier 0 with the T flag.",
 "C18": "Peer answering the outstanding DWR before the DPR; connections ending themselves in the instant of stop().",
 "C19": "stop() with connections being established leaves no thread and no socket (10 cases); long sparse runs with the statistics records measured.",
}
for _k, _v in ADD4.items():
    CHECKS[_k]["text"] += " " + _v


# ---- additions of wave 8 (DESIGN.md 7): SCTP passes on a fake `sctp` module, and the wave's strengthenings
ADD5 = {
 "C02": "Header-only AVPs with and without vendor id in the body alphabet.",
 "C06": "SCTP pass: six of the models with the node listening on SCTP and SCTP peers (fake sctp module: bindx / accept / connectx / sctp_send).",
 "C07": "SCTP pass (3 models); model with long silences (> 1000 s) between answers of one kind, elapsed time in the state key.",
 "C08": "Application whose peers live in two realms plus an additional realm; reads ending 28 bytes into the next request; long silences with the elapsed time in the state key.",
 "C09": "SCTP pass (2 models); schedule exploration (bound 1/2, line points in send_dwr / reset_last_dwr / receive_dpr) of the idle time-out expiring in the instant of the peer's DPR while an answer is held: the held answer must be refused afterwards.",
 "C11": "SCTP pass (one inbound, one outbound model).",
 "C12": "SCTP pass (6 models); three persistent peers of which the first has no addresses.",
 "C13": "SCTP pass (5 models).",
 "C14": "Outbound probe in the outbound-handshake scenarios: a persistent peer that lost its connection is dialled again after the reconnect wait, completes the handshake and is served; inbound and outbound handshake scenarios also over SCTP.",
 "C15": "A remainder pending behind a partial write (peer stopped reading) when the next messages are queued and the peer reads again (bound 2); four configurations on an SCTP association (the sctp_send branch of the send path).",
 "C16": "2 / 3 connections with equal hop-by-hop start values, selection callback picking each peer in turn, own requests around a watchdog round: identifiers distinct per connection.",
 "C17": "Two Node objects one after the other in one process (what the first answered is nothing the second has answered), run before anything is explored.",
 "C18": "SCTP cases (listener bound with bindx, accepted and dialled SCTP sockets); schedule exploration of the DPA's arrival (line points in receive_dpa / PeerConnection.close).",
 "C19": "Every cycle also over SCTP (3 vs 12 repetitions); schedule exploration of a connection ending itself (line points in PeerConnection.close / demand_attention), retained state after one and after two such connections.",
}
for _k, _v in ADD5.items():
    CHECKS[_k]["text"] += " " + _v
