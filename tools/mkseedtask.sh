#!/bin/sh
# usage: mkseedtask.sh <PROP> <name> ["extra hint"]  -> scratch worktree /tmp/wt_<name> with TASK.md + PROPERTY.txt
set -e
P=$1; N=$2; HINT="$3"
D=$(/verif/tools/mkwt.sh $N)
/verif/tools/prop_text.py $P > $D/PROPERTY.txt
/venv/bin/python - "$P" "$D" >> $D/PROPERTY.txt <<'PY'
import json, sys
for l in open('/verif/properties.jsonl'):
    p = json.loads(l)
    if p['id'] == sys.argv[1]:
        print("\nRelevant files:", ", ".join(p['anchors']['files']))
        print("Mechanisms in the code meant to make it hold:")
        for m in p['anchors']['mechanism']:
            print("  -", m['name'], "@", m.get('where'))
PY
cat > $D/TASK.md <<EOT
# Task: seed realistic defects that break one stated property

You are helping test a verification effort by producing realistic, subtle bugs ("seeded defects") in a
Python library. Work ONLY inside this scratch git worktree: $D (a checkout of the library
mensonen/diameter, a pure-Python Diameter RFC 6733 stack; sources under $D/src/diameter).
Do NOT touch /repo or /verif and do not read anything under /verif.

The property your changes must BREAK is in $D/PROPERTY.txt (read it carefully; line numbers in it may be
slightly off).

Make small, realistic source changes (the kind of mistake a maintainer could make in a refactoring, an
"optimisation" or a hasty bug fix) that break the property while the code still imports and the existing test
suite still passes. Prefer changes that need something specific to manifest: a particular thread interleaving,
a fault or timer landing at a particular point, a multi-step sequence of operations, an unusual input or
boundary value, or two cooperating sites that each look fine alone. NOT changes that ordinary use exposes at
once (not "always fail", not "never send anything"). Produce THREE different changes if you can (different
mechanisms / different clauses of the property), each as its own patch. $HINT

Requirements for each change <n> = 1, 2, 3:
1. Existing tests: \`cd $D && PYTHONPATH=$D/src /venv/bin/python -m pytest -q -p no:cacheprovider\`.
   Without any change the result is "1 failed, 157 passed" (tests/test_avp.py::test_create_time_type fails already);
   with your change the same 157 must still pass. Make sure the worktree sources are the ones imported:
   \`PYTHONPATH=$D/src /venv/bin/python -c "import diameter; print(diameter.__file__)"\`.
2. Demonstration: a standalone program $D/demo_<n>.py, run as
   \`cd $D && PYTHONPATH=$D/src /venv/bin/python demo_<n>.py\`, that exits non-zero (failed assertion) WITH the
   change and exits 0 WITHOUT it. Verify both. It must finish within a minute and must not need the network
   (no real sockets to other hosts; loopback sockets, fake sockets/monkeypatching, or calling internal methods
   directly are all fine). For concurrency bugs force the interleaving deterministically (hooks, subclassing,
   monkeypatched locks) rather than relying on luck.
3. Save the change as a unified diff of src/ only: \`git -C $D diff -- src > $D/patch_<n>.diff\`, then restore
   the tree (\`git -C $D checkout -- src\`) before the next change.
4. Never commit and NEVER use git stash (the stash is shared between all worktrees of this repository and other people work in sibling worktrees); to test without the change, save it with git diff into a file, restore with git checkout -- src, and re-apply it with git apply. At the end leave patch_<n>.diff and demo_<n>.py in $D with the source tree restored to HEAD.

Report back, per patch: file/function changed, which clause of the property it breaks, what it needs in order
to manifest, and the commands you ran to confirm (suite passes with change; demo fails with / passes without).
EOT
echo $D
