#!/bin/sh
# usage: mkwt.sh <name>  -> creates scratch worktree /tmp/wt_<name> of /repo HEAD
set -e
D=/tmp/wt_$1
git -C /repo worktree remove --force "$D" 2>/dev/null || true
rm -rf "$D"
git -C /repo worktree add --detach "$D" HEAD >/dev/null 2>&1
echo "$D"
