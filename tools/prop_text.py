#!/venv/bin/python
import json, sys
for l in open('/verif/properties.jsonl'):
    p = json.loads(l)
    if p['id'] == sys.argv[1]:
        print(f"Title: {p['title']}\n\nStatement: {p['statement']}\n\nQuantified over: {p['quantifier']['text']}")
