#!/venv/bin/python
"""Re-run every kept seeded change against the check of its property (quick tier) on a scratch copy of /repo HEAD.

usage: run_seeds.py [PROP ...]       exit 0 iff every selected seed is reported (check exit 1) and applies cleanly.
Nothing in /repo or /verif/evidence is touched: the checks run with VERIF_REPO / VERIF_EVIDENCE_DIR pointing at the copy.
"""
import json
import os
import subprocess
import sys


def sh(cmd, cwd=None, env=None):
    p = subprocess.run(cmd, shell=True, cwd=cwd, env=env, capture_output=True, text=True)
    return p.returncode, p.stdout + p.stderr


def main():
    args = [a for a in sys.argv[1:] if not a.startswith("--")]
    update = "--update-meta" in sys.argv       # record the outcome in the seed's meta.json ("detected_by_now")
    only = [a[7:] for a in sys.argv[1:] if a.startswith("--only=")]    # substring filter on the seed id, e.g. --only=-w5-
    want = set(args)
    root = "/verif/seeded"
    scratch = f"/tmp/wt_seeds_{os.getpid()}"
    sh(f"git -C /repo worktree remove --force {scratch}")
    rc, out = sh(f"git -C /repo worktree add --detach {scratch} HEAD")
    assert rc == 0, out
    bad = 0
    moved = []
    try:
        for sid in sorted(os.listdir(root)):
            meta = json.load(open(f"{root}/{sid}/meta.json"))
            prop = meta["breaks_property"]
            if want and prop not in want:
                continue
            if only and not any(o in sid for o in only):
                continue
            sh("git checkout -- . && git clean -fdq", scratch)
            rc, out = sh(f"git apply {root}/{sid}/patch.diff", scratch)
            if rc != 0:
                rc, out = sh(f"git apply --3way {root}/{sid}/patch.diff", scratch)
            if rc != 0 or sh("grep -rl '^<<<<<<< ' src", scratch)[1].strip():
                # a later fix: commit in /repo rewrote the lines this change touches.  The change was confirmed and reported by the check on
                # its own base commit (meta.json: base_commit, detected_by); it is not counted as a miss, and not as a success either.
                sh("git reset -q --hard", scratch)
                print(f"{sid}: BASE MOVED - does not apply to HEAD any more (kept for base {meta.get('base_commit')}, where it was reported: "
                      f"{[v.get('exit') for v in meta.get('detected_by', {}).values()]})")
                moved.append(sid)
                continue
            env = dict(os.environ, VERIF_REPO=scratch, VERIF_EVIDENCE_DIR=f"{scratch}/.evidence")
            rc, out = sh(f"./check {prop} --tier quick", "/verif", env)
            keys = [l.strip()[:160] for l in out.splitlines() if l.startswith(f"  {prop}:")]
            status = "caught" if rc == 1 else ("HARNESS-ERROR" if rc == 2 else "MISSED")
            if rc != 1:
                bad += 1
            print(f"{sid}: {status}  {keys[0] if keys else ''}")
            if update:
                first = meta.get("detected_by", {}).get(prop, {})
                meta["detected_by_now"] = {prop: {"exit": rc, "violations": keys[:4], "verif_commit": sh("git -C /verif rev-parse --short HEAD")[1].strip(),
                                                  "repo_commit": sh("git -C /repo rev-parse --short HEAD")[1].strip()}}
                meta["missed_at_first"] = bool(first) and first.get("exit") != 1
                json.dump(meta, open(f"{root}/{sid}/meta.json", "w"), indent=1)
            sys.stdout.flush()
    finally:
        sh(f"git -C /repo worktree remove --force {scratch}")
    print(f"{bad} seeds not reported; {len(moved)} seeds whose base moved: {moved}")
    return 1 if bad else 0


if __name__ == "__main__":
    sys.exit(main())
