#!/bin/bash
# usage: thorough_all.sh [PROP...]   runs the thorough tier of each check in turn; prints one summary line per check
cd "$(dirname "$0")/.."
PROPS=${@:-C01 C02 C03 C05 C06 C09 C10 C11 C12 C13 C14 C15 C16 C17 C18 C19 C20 C08 C07 C04}
for p in $PROPS; do
  t0=$(date +%s)
  out=$(./check $p --tier thorough 2>&1); rc=$?
  t1=$(date +%s)
  echo "== $p rc=$rc wall=$((t1-t0))s"
  echo "$out" | grep -E "^VIOLATION|^KNOWN-FINDING|^  $p:|HARNESS|Traceback|Error" | cut -c1-400 | head -20
  echo "$out" | tail -1 | cut -c1-300
done
echo SWEEP-DONE
