#!/bin/sh
# usage: try_patch.sh <patch-file> <PROP> [PROP...]   - runs the quick checks against a scratch copy of /repo HEAD with the patch applied
P=$(realpath "$1"); shift
S=/tmp/wt_try_$$
git -C /repo worktree remove --force $S 2>/dev/null
git -C /repo worktree add --detach $S HEAD >/dev/null 2>&1 || exit 2
if ! git -C $S apply "$P" 2>/dev/null && ! git -C $S apply --3way "$P" 2>/dev/null; then echo "PATCH DOES NOT APPLY"; git -C /repo worktree remove --force $S; exit 2; fi
for c in "$@"; do
  OUT=$(cd /verif && VERIF_REPO=$S VERIF_EVIDENCE_DIR=$S/.ev timeout 1500 ./check $c 2>&1)
  echo "$OUT" | grep -E "^  $c:|HARNESS" | cut -c1-220 | head -3
  echo "$OUT" | grep -qE "^VIOLATION" && echo "[$c] CAUGHT" || echo "[$c] MISSED"
done
git -C /repo worktree remove --force $S
